"""Selection expressions exported by TLC (specs/Selection.tla) -> real genjax selections."""
from . import jaxcompat  # noqa: F401  (must precede genjax)
from genjax.core import sel


def mk_sel(e):
    k = e["k"]
    if k == "all":
        return sel(())
    if k == "none":
        return sel()
    if k == "str":
        return sel(e["s"])
    if k == "tup":
        return sel(tuple(e["t"]))
    if k == "dict":
        return sel({a: mk_sel(v) for a, v in e["d"].items()})
    if k == "not":
        return ~mk_sel(e["x"])
    if k == "or":
        return mk_sel(e["x"]) | mk_sel(e["y"])
    if k == "and":
        return mk_sel(e["x"]) ^ mk_sel(e["y"])
    raise ValueError(k)


def canon(e):
    k = e["k"]
    if k in ("all", "none"):
        return k
    if k == "str":
        return f"str({e['s']})"
    if k == "tup":
        return "tup(" + ",".join(e["t"]) + ")"
    if k == "dict":
        return "dict(" + ",".join(f"{a}:{canon(v)}" for a, v in sorted(e["d"].items())) + ")"
    if k == "not":
        return f"not({canon(e['x'])})"
    return f"{k}({canon(e['x'])},{canon(e['y'])})"


def selected_by_chain(s, path):
    """The remainder chain that Fn's Regenerate handler threads down, decided at the leaf by `() in s`."""
    for a in path:
        _, s = s.match(a)
    return () in s


def leaves(x, pre=()):
    """Leaf paths of a nested-dict choice map (None = empty)."""
    if x is None:
        return set()
    if isinstance(x, dict):
        out = set()
        for k, v in x.items():
            out |= leaves(v, pre + (k,))
        return out
    return {pre}


def get_path(x, path):
    for a in path:
        x = x[a]
    return x
