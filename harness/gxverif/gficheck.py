"""Shared driver for the GFI.tla based checks (C01-C05, mh part of C09)."""
import json
import os
import random
import time

from . import tlc
from .common import MachineryError
from .tlaval import parse_dump


def write_cfg(name, progs, max_ops, op_kinds, max_cons, upd_args, invariants, extra="", sim_scripts="all"):
    """Emit a literal TLC config into specs/gen/ (constants as literals)."""
    d = os.path.join(tlc.SPECS, "gen")
    os.makedirs(d, exist_ok=True)
    q = lambda xs: "{" + ", ".join(f'"{x}"' for x in xs) + "}"
    txt = ("SPECIFICATION Spec\nCONSTANTS\n"
           f"  Progs = {q(progs)}\n  MaxOps = {max_ops}\n  OpKinds = {q(op_kinds)}\n  MaxCons = {max_cons}\n"
           f"  UpdArgs = \"{upd_args}\"\n  SimScripts = \"{sim_scripts}\"\n")
    for inv in invariants:
        txt += f"INVARIANT {inv}\n"
    txt += "POSTCONDITION ExportGF\n" + extra
    p = os.path.join(d, name)
    with open(p, "w") as f:
        f.write(txt)
    return os.path.join("gen", name)


def run_config(chk, cfg, own_kinds, *, max_replay=None, variant="eager", min_depth=1, simulate=None, depth=None,
               check_roundtrip=True, timeout=1500, label=None):
    """TLC on GFI.tla with cfg (exhaustive, states dumped), then replay every (or a seeded sample of) behaviour."""
    tag = f"gfi_{chk.pid}_{os.path.basename(cfg).replace('.cfg','')}_{os.getpid()}"
    dump = os.path.join(tlc.OUT, tag + "_states")
    res = tlc.run("GFI", cfg, workers=16, extra=["-dump", dump], timeout=timeout, tag=tag, allow_violation=True)
    if not res.completed:
        tail = "\n".join(l for l in res.stdout.splitlines()[-40:])
        if res.invariant_violated:
            # Impl |/= Contract inside the model. DESIGN.md 2.3: this is a verdict only if the counterexample replays on the
            # real code (the real code does what the Impl model says, and the Contract rejects it); otherwise the model is stale.
            from .tlaval import parse_error_trace
            from .gfireplay import Replayer, op_key
            trace = parse_error_trace(res.stdout, only={"prog", "hist", "n"})
            if not trace:
                raise MachineryError(f"TLC: invariant {res.invariant_violated} violated in {cfg} but no counterexample could be parsed:\n{tail}")
            last = trace[-1]
            rp = Replayer(_StubChk(chk.seed), export_gf(), variant="eager", check_roundtrip=False)
            hist = list(last["hist"])
            allbad = []
            for i in range(1, len(hist) + 1):
                _, bad = rp.replay_state(last["prog"], hist[:i])
                allbad += bad
            key = f"tlc-counterexample|{res.invariant_violated}|prog={last['prog']}|" + op_key(hist)
            if os.path.exists(dump + ".dump"):
                os.remove(dump + ".dump")
            tlc.cleanup(res)
            if allbad:
                raise MachineryError(f"TLC counterexample to {res.invariant_violated} does not reproduce on the real code (stale Impl model): {allbad[:3]}")
            chk.add_tlc(res, (label or cfg) + " [invariant violated]")
            chk.case(key)
            chk.violation(key, f"TLC: the behaviour violates {res.invariant_violated} and the real code reproduces it step by step "
                               f"(choices, scores, weights as in the counterexample)", {"program": last["prog"], "history": [_slim(o) for o in hist]})
            return {"states": 0, "bad": 1, "tlc_counterexample": True}
        raise MachineryError(f"TLC failed on {cfg}:\n{tail}")
    chk.add_tlc(res, label or cfg)
    gfj = tlc.load_json(res, "gf.json")
    # one streaming pass over the dump (millions of states in the larger configurations): a uniform reservoir sample of the
    # states at depth >= min_depth is kept as raw text, only the sample is parsed
    import re as _re
    from .tlaval import iter_dump_blocks, parse_state_block
    cap = max_replay if max_replay is not None else 20000
    rng = random.Random(chk.seed)
    nre = _re.compile(r"^/\\ n = (\d+)", _re.M)
    kept, seen = [], 0
    for body in iter_dump_blocks(dump + ".dump"):
        m = nre.search(body)
        if m is None or int(m.group(1)) < min_depth:
            continue
        seen += 1
        if len(kept) < cap:
            kept.append(body)
        else:
            j = rng.randrange(seen)
            if j < cap:
                kept[j] = body
    os.remove(dump + ".dump")
    tlc.cleanup(res)
    states = [parse_state_block(b, only={"prog", "hist", "n"}) for b in kept]
    states.sort(key=lambda s: (s["n"], repr(s["prog"]), repr(s["hist"])))
    if seen > len(kept):
        chk.cov["exhaustive"] = False
    todo = [(st["prog"], list(st["hist"])) for st in states]
    return _replay(chk, gfj, todo, own_kinds, variant, check_roundtrip)


def _replay(chk, gfj, todo, own_kinds, variant, check_roundtrip):
    t0 = time.time()
    todo = [x for x in todo if x[1][-1]["op"] in own_kinds]
    todo.sort(key=lambda x: (x[0], repr(x[1][0])))
    nproc = int(os.environ.get("GX_PROCS", "8"))
    nproc = max(1, min(nproc, len(todo) // 40 + 1))
    chunks = [todo[i::1] for i in range(0)]
    size = (len(todo) + nproc - 1) // nproc if todo else 1
    chunks = [todo[i:i + size] for i in range(0, len(todo), size)]
    jobs = [(gfj, variant, check_roundtrip, chk.seed, ch) for ch in chunks]
    results = []
    if nproc == 1:
        results = [_worker(j) for j in jobs]
    else:
        import multiprocessing as mp
        ctx = mp.get_context("spawn")
        with ctx.Pool(nproc) as pool:
            results = pool.map(_worker, jobs)
    nbad = 0
    nops = 0
    for res_list, divs, n_ops in results:
        nops += n_ops
        for d in divs:
            chk.divergence(d)
        for key, bad, detail in res_list:
            chk.case(key)
            chk.validated(1)
            if bad:
                nbad += 1
                chk.violation(key, "; ".join(bad[:3]), detail)
    if todo:
        prog, hist = todo[len(todo) // 2]
        from .gfireplay import op_key
        chk.sample({"program": prog, "behaviour": op_key(hist), "variant": variant})
    return {"states": len(todo), "bad": nbad, "replay_s": round(time.time() - t0, 1), "ops": nops, "procs": nproc}


class _StubChk:
    def __init__(self, seed):
        self.seed = seed
        self.divs = []

    def divergence(self, what):
        if len(self.divs) < 20:
            self.divs.append(what)


def _worker(job):
    gfj, variant, check_roundtrip, seed, items = job
    from .gfireplay import Replayer
    stub = _StubChk(seed)
    rp = Replayer(stub, gfj, variant=variant, check_roundtrip=check_roundtrip)
    out = []
    for n_item, (prog, hist) in enumerate(items):
        if n_item and n_item % 400 == 0:
            __import__("jax").clear_caches()      # see common.Check.case
        key, bad = rp.replay_state(prog, hist)
        detail = {"program": prog, "history": [_slim(o) for o in hist], "variant": variant} if bad else None
        out.append((key, bad, detail))
    return out, stub.divs, rp.n_ops


_GF = None


def export_gf():
    """The program table as exported by TLC itself (tiny exhaustive run)."""
    global _GF
    if _GF is None:
        cfg = write_cfg("GFI_export.cfg", ["d0"], 0, ["simulate"], 0, "same", [])
        res = tlc.run("GFI", cfg, workers=1, timeout=300, tag=f"gfiexport_{os.getpid()}")
        _GF = tlc.load_json(res, "gf.json")
        tlc.cleanup(res)
    return _GF


def run_simulation(chk, cfg, own_kinds, *, num, depth, max_replay=None, variant="eager", check_roundtrip=True, timeout=1500, label=None):
    """TLC -simulate on GFI.tla: `num` random behaviours of length MaxOps, each printed by PrintHist and replayed."""
    from .tlaval import printed_values
    tag = f"gfisim_{chk.pid}_{os.path.basename(cfg).replace('.cfg','')}_{os.getpid()}"
    res = tlc.run("GFI", cfg, workers=1, simulate=f"num={num}", depth=depth + 2, seed=chk.seed + 7, timeout=timeout, tag=tag,
                  allow_violation=True)
    if res.invariant_violated or "Error:" in res.stdout:
        tail = "\n".join(l for l in res.stdout.splitlines()[-30:])
        raise MachineryError(f"TLC -simulate failed / invariant violated in {cfg}:\n{tail}")
    gfj = export_gf()
    hists = []
    seen_h = set()
    for v in printed_values(res.stdout, '<< "HIST"') + printed_values(res.stdout, '<<"HIST"'):
        k = repr(v)
        if k not in seen_h:
            seen_h.add(k)
            hists.append((v[1], list(v[2])))
    rng = random.Random(chk.seed)
    n_all = len(hists)
    if max_replay is not None and len(hists) > max_replay:
        hists = rng.sample(hists, max_replay)
    chk.add_tlc(res, label or (cfg + "/simulate"))
    tlc.cleanup(res)
    if gfj is None:
        raise MachineryError("gf.json not exported in simulate mode")
    # all prefixes are replayed (cached), every step compared
    todo = []
    seen = set()
    for prog, h in hists:
        for i in range(1, len(h) + 1):
            k = prog + repr(h[:i])
            if k not in seen:
                seen.add(k)
                todo.append((prog, h[:i]))
    info = _replay(chk, gfj, todo, own_kinds, variant, check_roundtrip)
    info["behaviours_generated"] = n_all
    info["behaviours_replayed"] = len(hists)
    return info


def _slim(o):
    return {k: (v if k in ("op", "arg", "w", "acc") else str(v)[:300]) for k, v in o.items() if k not in ("prop", "pexp")}
