"""C20 - the exact state-space baselines are exact."""
import math
from fractions import Fraction

import numpy as np

from .. import jaxcompat  # noqa: F401
import jax
import jax.numpy as jnp

from ..common import Check, MachineryError
from .. import tlc
from ..gfirecord import chi2_pvalue_upper
from ..tlaval import printed_values
from genjax import seed
from genjax.extras.state_space import (forward_filter, compute_sequence_log_prob, forward_filtering_backward_sampling,
                                       discrete_hmm, kalman_filter, kalman_smoother, linear_gaussian)


def fr(q):
    return Fraction(q[0], q[1])


def ff(q):
    return float(fr(q))


def lognorm(x, m, v):
    return -0.5 * math.log(2 * math.pi * v) - (x - m) ** 2 / (2 * v)


def run(tier, argv):
    chk = Check("C20", tier)
    key = jax.random.key(chk.seed + 21)
    models = {}
    kalman_cases = None
    plans = [("dense2", 1), ("dense2", 2), ("dense2", 3), ("sparse3", 1), ("sparse3", 3), ("rect23", 2)]
    if tier != "quick":
        plans += [("sparse3", 2), ("rect23", 1), ("rect23", 3)]
    hmm_cases = []
    for m, t in plans:
        res = tlc.run("StateSpace", f"StateSpace_{m}_{t}.cfg", workers=1, timeout=900)
        chk.add_tlc(res, f"StateSpace_{m}_{t}.cfg")
        hmm_cases += printed_values(res.stdout, '<<"HMM"') + printed_values(res.stdout, '<< "HMM"')
        kc = printed_values(res.stdout, '<<"KALMAN"') + printed_values(res.stdout, '<< "KALMAN"')
        if kc:
            kalman_cases = kc[0][1]
        tlc.cleanup(res)
    if not hmm_cases or not kalman_cases:
        raise MachineryError("StateSpace.tla printed no cases")
    MODELS = {
        "dense2": ([[1, 2], [1, 2]], [[(3, 4), (1, 4)], [(1, 3), (2, 3)]], [[(1, 2), (1, 2)], [(1, 5), (4, 5)]]),
    }
    # model matrices come from the spec prints themselves: reconstruct from the first case of each model via a side channel
    import json
    import os
    # (the matrices are small literals of StateSpace.tla; they are re-read by evaluating the spec's Models through TLC's print of a helper)
    mats = _model_matrices()
    jit_ff = jax.jit(forward_filter)
    for (_, mname, ys, filt, ev, paths) in hmm_cases:
        init, trans, emit = mats[mname]
        obs = jnp.asarray([y - 1 for y in ys], dtype=jnp.int32)
        T = len(ys)
        ck = f"hmm|{mname}|obs={list(ys)}"
        chk.case(ck)
        chk.validated(1)
        bad = []
        try:
            for variant, f in (("eager", forward_filter), ("jit", jit_ff)):
                alpha, lm = f(obs, init, trans, emit)
                got = np.exp(np.asarray(alpha, dtype=np.float64))
                want = np.asarray([[ff(v) for v in filt[t]] for t in range(T)])
                if got.shape != want.shape or np.max(np.abs(got - want)) > 2e-5:
                    bad.append(f"{variant}: filtering distributions {got.tolist()} expected {want.tolist()}")
                if abs(float(lm) - math.log(ff(ev))) > 2e-5:
                    bad.append(f"{variant}: log marginal {float(lm)} expected log({fr(ev)}) = {math.log(ff(ev))}")
            post = {}
            for (xs, joint) in paths:
                st = jnp.asarray([x - 1 for x in xs], dtype=jnp.int32)
                lp = float(compute_sequence_log_prob(st, obs, init, trans, emit))
                if abs(lp - math.log(ff(joint))) > 2e-5:
                    bad.append(f"compute_sequence_log_prob({list(xs)}) = {lp} expected {math.log(ff(joint))}")
                # the step model iterated over time defines the same joint density
                carry = (jnp.asarray(0), jnp.asarray(0), init, trans, emit)
                tot = 0.0
                for t in range(T):
                    logp, carry = discrete_hmm.assess({"state": st[t], "obs": obs[t]}, *carry)
                    tot += float(jnp.sum(logp))
                if abs(tot - math.log(ff(joint))) > 2e-5:
                    bad.append(f"discrete_hmm iterated over time has log density {tot} on {list(xs)}, expected {math.log(ff(joint))}")
                post[tuple(x - 1 for x in xs)] = ff(joint) / ff(ev)
            # backward sampling draws state sequences from the exact posterior (statistical screen, fixed keys)
            n = 3000 if tier == "quick" else 20000
            samp = jax.jit(jax.vmap(lambda k: seed(forward_filtering_backward_sampling)(k, obs, init, trans, emit).states))(jax.random.split(key, n))
            samp = np.asarray(samp)
            counts = {}
            for row in samp:
                counts[tuple(int(v) for v in row)] = counts.get(tuple(int(v) for v in row), 0) + 1
            off = [s for s in counts if s not in post]
            if off:
                bad.append(f"backward sampling produced a state sequence of posterior probability 0: {off[0]}")
            else:
                chi = sum((counts.get(s, 0) - n * p) ** 2 / (n * p) for s, p in post.items())
                pv = chi2_pvalue_upper(chi, max(1, len(post) - 1))
                if pv < 1e-9:
                    bad.append(f"backward-sampling frequencies deviate from the exact posterior: chi2={chi:.1f}, p={pv:.1e}")
        except Exception as ex:
            bad.append(f"raised {type(ex).__name__}: {str(ex).splitlines()[0][:160] if str(ex) else ''}")
        if bad:
            chk.violation(ck, "; ".join(bad[:3]), {"model": mname, "obs": list(ys)})
    c = hmm_cases[len(hmm_cases) // 2]
    chk.sample({"model": c[1], "obs": list(c[2]), "evidence": str(fr(c[4])), "filter_T": str(c[3][-1])})
    # ---------------- Kalman, scalar, T = 2: exact rationals from the spec
    for (P, y, B) in kalman_cases:
        p = {k: ff(v) for k, v in P.items()}
        yy = [ff(v) for v in y]
        ck = f"kalman-scalar|{sorted(p.items())}|y={yy}"
        chk.case(ck)
        chk.validated(1)
        bad = []
        try:
            args = (jnp.asarray([[yy[0]], [yy[1]]]), jnp.asarray([p["m0"]]), jnp.asarray([[p["p0"]]]), jnp.asarray([[p["a"]]]),
                    jnp.asarray([[p["q"]]]), jnp.asarray([[p["c"]]]), jnp.asarray([[p["r"]]]))
            fm, fc, lm = kalman_filter(*args)
            want = [(ff(B["f1"][0]), ff(B["f1"][1])), (ff(B["x2"]["m"]), ff(B["x2"]["v"]))]
            for t in range(2):
                if abs(float(fm[t, 0]) - want[t][0]) > 2e-5 or abs(float(fc[t, 0, 0]) - want[t][1]) > 2e-5:
                    bad.append(f"filter moments at t={t + 1}: ({float(fm[t, 0])}, {float(fc[t, 0, 0])}) expected {want[t]}")
            wlm = -0.5 * ff(B["quad"]) - 0.5 * math.log((2 * math.pi) ** 2 * ff(B["det"]))
            if abs(float(lm) - wlm) > 3e-5:
                bad.append(f"log marginal {float(lm)} expected {wlm}")
            sm, sc = kalman_smoother(*args)[:2]
            ws = (ff(B["x1s"]["m"]), ff(B["x1s"]["v"]))
            if abs(float(sm[0, 0]) - ws[0]) > 2e-5 or abs(float(sc[0, 0, 0]) - ws[1]) > 2e-5:
                bad.append(f"smoothed moments of x1: ({float(sm[0, 0])}, {float(sc[0, 0, 0])}) expected {ws}")
            if abs(float(sm[1, 0]) - want[1][0]) > 2e-5:
                bad.append("smoothed moments of the last state differ from the filtered ones")
            # the step model iterated over time defines the joint Gaussian density
            xs = [0.3, -0.7]
            carry = (jnp.zeros(1), jnp.asarray(0), *args[1:])
            tot = 0.0
            for t in range(2):
                logp, carry = linear_gaussian.assess({"state": jnp.asarray([xs[t]]), "obs": jnp.asarray([yy[t]])}, *carry)
                tot += float(jnp.sum(logp))
            wj = (lognorm(xs[0], p["m0"], p["p0"]) + lognorm(yy[0], p["c"] * xs[0], p["r"]) + lognorm(xs[1], p["a"] * xs[0], p["q"])
                  + lognorm(yy[1], p["c"] * xs[1], p["r"]))
            if abs(tot - wj) > 3e-5:
                bad.append(f"linear_gaussian iterated over time has log density {tot}, expected {wj}")
        except Exception as ex:
            bad.append(f"raised {type(ex).__name__}: {str(ex).splitlines()[0][:160] if str(ex) else ''}")
        if bad:
            chk.violation(ck, "; ".join(bad[:3]), {"params": p, "y": yy})
    # ---------------- Kalman with d_obs != d_state: numpy conditioning of the joint Gaussian (float64 oracle, exploration-level part)
    rng = np.random.RandomState(chk.seed + 5)
    for (ds, do, T) in [(2, 1, 1), (2, 1, 3), (1, 2, 2), (2, 2, 2), (3, 1, 2)]:
        ck = f"kalman-numpy|d_state={ds}|d_obs={do}|T={T}"
        chk.case(ck)
        A = rng.uniform(-1, 1, (ds, ds)); C = rng.uniform(-1, 1, (do, ds))
        Qm = np.eye(ds) * 0.5 + 0.1; Rm = np.eye(do) * 0.3 + 0.05; P0 = np.eye(ds) + 0.2; m0 = rng.uniform(-1, 1, ds)
        ysn = rng.uniform(-1, 1, (T, do))
        # joint over (x_1..x_T, y_1..y_T)
        n = ds * T
        Sx = np.zeros((n, n)); mx = np.zeros(n)
        for t in range(T):
            mx[t * ds:(t + 1) * ds] = m0 if t == 0 else A @ mx[(t - 1) * ds:t * ds]
        cov_tt = [P0]
        for t in range(1, T):
            cov_tt.append(A @ cov_tt[-1] @ A.T + Qm)
        for t in range(T):
            Sx[t * ds:(t + 1) * ds, t * ds:(t + 1) * ds] = cov_tt[t]
            cur = cov_tt[t]
            for u in range(t + 1, T):
                cur = A @ cur if False else None
        # cross covariances cov(x_t, x_u) = cov_tt[t] (A^T)^(u-t)
        for t in range(T):
            M = cov_tt[t]
            for u in range(t + 1, T):
                M = M @ A.T
                Sx[t * ds:(t + 1) * ds, u * ds:(u + 1) * ds] = M
                Sx[u * ds:(u + 1) * ds, t * ds:(t + 1) * ds] = M.T
        H = np.kron(np.eye(T), C)
        Syy = H @ Sx @ H.T + np.kron(np.eye(T), Rm)
        my = H @ mx
        d = ysn.reshape(-1) - my
        post_m = mx + Sx @ H.T @ np.linalg.solve(Syy, d)
        post_S = Sx - Sx @ H.T @ np.linalg.solve(Syy, H @ Sx)
        logev = -0.5 * d @ np.linalg.solve(Syy, d) - 0.5 * np.log(np.linalg.det(2 * np.pi * Syy))
        try:
            args = tuple(jnp.asarray(v, dtype=jnp.float32) for v in (ysn, m0, P0, A, Qm, C, Rm))
            fm, fc, lm = kalman_filter(*args)
            sm, sc = kalman_smoother(*args)[:2]
            bad = []
            if abs(float(lm) - logev) > 2e-3:
                bad.append(f"log marginal {float(lm)} expected {logev}")
            if np.max(np.abs(np.asarray(fm[-1]) - post_m[-ds:])) > 2e-3:
                bad.append(f"last filtered mean {np.asarray(fm[-1]).tolist()} expected {post_m[-ds:].tolist()}")
            if np.max(np.abs(np.asarray(sm).reshape(-1) - post_m)) > 2e-3:
                bad.append(f"smoothed means {np.asarray(sm).reshape(-1).tolist()} expected {post_m.tolist()}")
            for t in range(T):
                if np.max(np.abs(np.asarray(sc[t]) - post_S[t * ds:(t + 1) * ds, t * ds:(t + 1) * ds])) > 2e-3:
                    bad.append(f"smoothed covariance at t={t + 1} differs from conditioning the joint Gaussian")
            if bad:
                chk.violation(ck, "; ".join(bad[:3]), {})
        except Exception as ex:
            chk.violation(ck, f"raised {type(ex).__name__}: {str(ex).splitlines()[0][:160] if str(ex) else ''}", {})
    chk.cov["rule"] = ("HMM: every observation sequence of positive probability for the models dense2 (2x2), sparse3 (3x3 with zeros), rect23 "
                       "(2 states, 3 symbols), T in 1..3 - filtering distributions, evidence, per-sequence joint, the iterated step model, FFBS "
                       "frequencies (chi-square screen); Kalman: scalar model T=2 exact in rationals (filter, smoother, log marginal via quadratic "
                       "form and determinant), the iterated step model; d_obs != d_state and T up to 3 against numpy conditioning (float64)")
    chk.assumptions.append("Kalman beyond the scalar T=2 instance is compared with a numpy conditioning oracle, not with the TLA+ model")
    return chk.finish()


def _model_matrices():
    """The literals of StateSpace.tla's Models (kept in one place there; mirrored here as floats for the real calls)."""
    def arr(x):
        return jnp.asarray(np.asarray(x, dtype=np.float32))
    return {
        "dense2": (arr([1 / 2, 1 / 2]), arr([[3 / 4, 1 / 4], [1 / 3, 2 / 3]]), arr([[1 / 2, 1 / 2], [1 / 5, 4 / 5]])),
        "sparse3": (arr([1 / 2, 1 / 2, 0]), arr([[0, 1, 0], [1 / 2, 0, 1 / 2], [0, 1 / 4, 3 / 4]]),
                    arr([[1 / 2, 1 / 2, 0], [0, 1 / 3, 2 / 3], [1 / 4, 1 / 4, 1 / 2]])),
        "rect23": (arr([1 / 4, 3 / 4]), arr([[1 / 2, 1 / 2], [1 / 10, 9 / 10]]), arr([[1 / 3, 1 / 3, 1 / 3], [1 / 2, 0, 1 / 2]])),
    }
