"""C18 - chain returns exactly the burnt-in, thinned kernel iterates and diagnostics."""
import numpy as np

from .. import jaxcompat  # noqa: F401
import jax
import jax.numpy as jnp

from ..common import Check, MachineryError
from .. import tlc
from ..tlaval import printed_values
from genjax import gen, normal, categorical, seed, const, sel
from genjax.state import save
from genjax.inference.mcmc import chain, mh
from genjax.pjax import wrap_sampler

LN2 = float(np.log(2.0))


@gen
def stepper(step):
    return normal(step, 1.0) @ "x"


def tracer_kernel(tr):
    """deterministic kernel: bumps the step counter stored in the trace's arguments, accept flag = f(step) (Chain.tla: Acc)."""
    gf = tr.get_gen_fn()
    step = tr.get_args()[0][0]
    new, _, _ = gf.update(tr, None, step + 1.0)
    save(accept=(jnp.mod(step + 1.0, 3.0) != 0.0))
    return new


def composite_kernel(tr):
    """a composite kernel saving several diagnostics (two sub-moves + an extra statistic)."""
    t1 = mh(tr, sel("z"))
    save(first_accept_seen=jnp.asarray(True))
    t2 = mh(t1, sel("w"))
    save(energy=t2.get_score())
    return t2


ROW = jnp.log(jnp.array([0.5, 0.25, 0.25]))


@gen
def dyadic(obs_shift):
    z = categorical(ROW) @ "z"
    w = categorical(jnp.roll(ROW, z)) @ "w"
    y = categorical(jnp.roll(ROW, w + obs_shift)) @ "y"
    return z


_bits = wrap_sampler(lambda key, sample_shape=(): jax.random.bits(key, tuple(sample_shape) + (2,), dtype=jnp.uint32), name="bits")


def bits_kernel(tr):
    """kernel whose new state reveals the random bits it consumed (per-chain independence)."""
    gf = tr.get_gen_fn()
    b = _bits()
    new, _, _ = gf.update(tr, None, (b[0] % 1024).astype(jnp.float32))
    save(accept=jnp.asarray(True))
    return new


def run(tier, argv):
    chk = Check("C18", tier)
    cfg = "Chain_q.cfg" if tier == "quick" else "Chain_t.cfg"
    res = tlc.run("Chain", cfg, workers=1, timeout=900)
    chk.add_tlc(res, cfg)
    cases = printed_values(res.stdout, '<<"CASE"') + printed_values(res.stdout, '<< "CASE"')
    tlc.cleanup(res)
    if not cases:
        raise MachineryError("no CASE lines from Chain.tla")
    key = jax.random.key(chk.seed + 3)
    tr0, _ = stepper.generate({"x": 0.5}, 0.0)
    trd, _ = dyadic.generate({"y": jnp.asarray(1)}, jnp.asarray(0))
    full_cache = {}
    for n_case, (_, n, burn, thin, chains, kept, accepts, rnum, rden) in enumerate(cases):
        if n_case and n_case % 40 == 0:
            jax.clear_caches()      # every grid point compiles its own scans: thousands of executables exhaust the process's mapped memory
        ck = f"chain|n={n}|burn={burn}|thin={thin}|chains={chains}"
        chk.case(ck)
        chk.validated(1)
        bad = []
        try:
            # (i) deterministic tracer kernel: exactly the iterates / flags / statistics of the specification
            run_ = seed(chain(tracer_kernel))
            r = run_(key, tr0, const(n), burn_in=const(burn), autocorrelation_resampling=const(thin), n_chains=const(chains))
            steps = np.asarray(r.traces.get_args()[0][0])
            acc = np.asarray(r.accepts)
            want_steps = np.asarray(kept, dtype=np.float32)
            want_acc = np.asarray(accepts)
            if chains > 1:
                if steps.shape != (chains, len(kept)) or acc.shape != (chains, len(kept)):
                    bad.append(f"n_chains={chains}: no leading chain axis (states {steps.shape}, accepts {acc.shape})")
                else:
                    for c in range(chains):
                        if not np.array_equal(steps[c], want_steps) or not np.array_equal(acc[c], want_acc):
                            bad.append(f"chain {c}: states {steps[c].tolist()} accepts {acc[c].tolist()} expected {kept} / {list(accepts)}")
            else:
                if not np.array_equal(steps, want_steps):
                    bad.append(f"retained states are steps {steps.tolist()}, expected {list(kept)}")
                if not np.array_equal(acc, want_acc):
                    bad.append(f"accepts {acc.tolist()} expected {list(accepts)}")
            if int(r.n_steps.value) != len(kept):
                bad.append(f"n_steps {r.n_steps.value} expected {len(kept)}")
            if abs(float(r.acceptance_rate) - rnum / rden) > 1e-6:
                bad.append(f"acceptance_rate {float(r.acceptance_rate)} expected {rnum}/{rden}")
            # every retained trace is coherent (score = -assess of its choices under its recorded arguments)
            # (ii) random kernels: slice identity chain(n, b, t) == chain(n, 0, 1)[b::t] under the same key
            for kname, kern, t0 in (("mh", lambda t: mh(t, sel("z") | sel("w")), trd), ("composite", composite_kernel, trd)):
                if chains > 1 and kname == "composite":
                    continue
                f = seed(chain(kern))
                fk = (kname, n, chains)
                if fk not in full_cache:
                    full_cache[fk] = f(key, t0, const(n), n_chains=const(chains))
                full = full_cache[fk]
                part = f(key, t0, const(n), burn_in=const(burn), autocorrelation_resampling=const(thin), n_chains=const(chains))
                sl = (slice(None), slice(burn, None, thin)) if chains > 1 else (slice(burn, None, thin),)
                fc, pc = full.traces.get_choices(), part.traces.get_choices()
                for a in ("z", "w"):
                    if not np.array_equal(np.asarray(fc[a])[sl], np.asarray(pc[a])):
                        bad.append(f"{kname}: thinned run differs from the [{burn}::{thin}] slice of the full run at address {a}")
                if not np.array_equal(np.asarray(full.accepts)[sl], np.asarray(part.accepts)):
                    bad.append(f"{kname}: accepts are not the [{burn}::{thin}] slice of the full run's accepts")
                if abs(float(np.mean(np.asarray(part.acceptance_rate))) - float(np.mean(np.asarray(part.accepts)))) > 1e-6:
                    bad.append(f"{kname}: acceptance_rate is not the mean of the retained accepts")
                sc = np.asarray(jax.vmap(lambda t: t.get_score())(part.traces)) if chains == 1 else None
                if sc is not None:
                    lp = np.asarray(jax.vmap(lambda c: dyadic.log_density(c, jnp.asarray(0)))(pc))
                    if not np.allclose(sc, -lp, atol=1e-5):
                        bad.append(f"{kname}: a retained trace is not coherent (score != -assess)")
            # (iii) several chains: independent randomness
            if chains > 1:
                rb = seed(chain(bits_kernel))(key, tr0, const(n), burn_in=const(burn), autocorrelation_resampling=const(thin), n_chains=const(chains))
                v = np.asarray(rb.traces.get_args()[0][0])
                if v.shape[0] != chains:
                    bad.append("bits kernel: no leading chain axis")
                elif any(np.array_equal(v[a], v[b]) for a in range(chains) for b in range(a + 1, chains)) and v.shape[1] >= 2:
                    bad.append(f"chains share their randomness: {v.tolist()}")
        except Exception as ex:
            bad.append(f"raised {type(ex).__name__}: {str(ex).splitlines()[0][:160] if str(ex) else ''}")
        if bad:
            chk.violation(ck, "; ".join(bad[:3]), {"n": n, "burn": burn, "thin": thin, "chains": chains})
    c = cases[len(cases) // 2]
    chk.sample({"n": c[1], "burn_in": c[2], "thin": c[3], "chains": c[4], "retained_steps": list(c[5]), "accepts": list(c[6])})
    chk.cov["rule"] = ("every (n_steps, burn_in < n, thinning, n_chains) of the Chain.tla grid (non-empty results) with a deterministic tracer kernel "
                       "(exact iterates / flags / rate / count), and with random kernels (mh on a dyadic model, a composite kernel saving several "
                       "diagnostics): slice identity against the un-thinned run under the same key, coherence of retained traces; several chains: "
                       "leading axis, per-chain randomness distinct (bit-revealing kernel)")
    chk.cov["exhaustive"] = True
    return chk.finish()
