"""C19 - state/save is transparent and collects exactly what was saved."""
import numpy as np

from .. import jaxcompat  # noqa: F401
import jax
import jax.numpy as jnp

from ..common import Check, MachineryError
from .. import tlc
from genjax.state import state, save, namespace, tag_state
from genjax.pjax import modular_vmap, seed


def canon(p):
    def st(s):
        k = s["k"]
        if k == "save":
            return f"save({s['name']}={s['c']}" + (f",{s['d']}" if s.get("d") else "") + ")"
        if k == "ns":
            return f"ns[{s['ns']}](" + canon(s["body"]) + ")"
        if k in ("scan", "vmap"):
            return f"{k}{s['n']}(" + canon(s["body"]) + ")"
        return "call(" + canon(s["body"]) + ")"
    return ";".join(st(s) for s in p)


def build(prog, vmap_kind="vmap"):
    """f(x) -> sum of everything saved (so that transparency of `state` is observable)."""
    def run(stmts, idxs, x):
        total = jnp.zeros(())
        for s in stmts:
            k = s["k"]
            if k == "save":
                val = x * 0 + s["c"] + sum((10 ** (j + 1)) * i for j, i in enumerate(idxs))
                if s.get("d"):
                    # two values under one name: the first depends on the enclosing loops, the second is a constant
                    a, b = tag_state(val, jnp.asarray(float(s["d"])), name=s["name"])
                    total = total + a + b
                else:
                    out = save(**{s["name"]: val})
                    total = total + out[s["name"]]
            elif k == "ns":
                total = total + namespace(lambda: run(s["body"], idxs, x), s["ns"])()
            elif k == "call":
                total = total + run(s["body"], idxs, x)
            elif k == "scan":
                def step(c, i):
                    return c + run(s["body"], idxs + [i], x), None
                c, _ = jax.lax.scan(step, jnp.zeros(()), jnp.arange(1, s["n"] + 1, dtype=jnp.float32))
                total = total + c
            elif k == "vmap":
                g = lambda i: run(s["body"], idxs + [i], x)
                lanes = jnp.arange(1, s["n"] + 1, dtype=jnp.float32)
                r = jax.vmap(g)(lanes) if vmap_kind == "vmap" else modular_vmap(g, in_axes=0)(lanes)
                total = total + jnp.sum(r)
        return total

    return lambda x: run(prog, [], x)


def flatten(d, pre=()):
    out = {}
    for k, v in d.items():
        if isinstance(v, dict):
            out.update(flatten(v, pre + (k,)))
        elif isinstance(v, (tuple, list)):
            for i, w in enumerate(v):
                out[pre + (k, f"#{i}")] = np.asarray(w)
        else:
            out[pre + (k,)] = np.asarray(v)
    return out


def run(tier, argv):
    chk = Check("C19", tier)
    res = tlc.run("StateInterp", "StateInterp.cfg", workers=4, timeout=600)
    chk.add_tlc(res, "StateInterp.cfg")
    table = tlc.load_json(res, "state_progs.json")
    tlc.cleanup(res)
    r = tlc.run("StateInterp", "StateInterp_prefix.cfg", workers=1, allow_violation=True, timeout=300)
    if r.invariant_violated != "CollectOldOK":
        raise MachineryError("vacuity guard: the pre-repair scan merge is no longer refuted by TLC")
    tlc.cleanup(r)
    chk.cov["binding_demo"].append("TLC refutes CollectOldOK (scan states merged at the root, replacing same-named sub-dictionaries)")
    key = jax.random.key(chk.seed)
    for row in sorted(table, key=lambda r: canon(r["prog"])):
        prog = row["prog"]
        name = canon(prog)
        want, mixed, consts = {}, {}, {}
        for e in row["expect"]:
            q = tuple(e["path"]) + (("#0",) if e["second"] else ())
            want[q] = np.asarray(e["val"], dtype=np.float32)
            mixed[q] = "scan" in e["kinds"] and "vmap" in e["kinds"]
            if e["second"]:
                consts[tuple(e["path"]) + ("#1",)] = float(e["second"])
        for vk in ("vmap", "modular_vmap"):
            if vk == "modular_vmap" and "vmap" not in name:
                continue
            f = build(prog, vk)
            x = jnp.asarray(0.0)
            try:
                plain = np.asarray(f(x))
            except Exception as ex:
                ck = f"state|{name}|{vk}|plain"
                chk.case(ck)
                chk.violation(ck, f"the function with its save / tag_state calls raised without any state wrapper: {type(ex).__name__}: "
                              f"{str(ex).splitlines()[0][:140] if str(ex) else ''}", {"prog": prog})
                continue
            variants = {
                "eager": lambda: state(f)(x),
                "jit": lambda: jax.jit(state(f))(x),
                "seed": lambda: seed(state(f))(key, x),
                "vmap-of-state": lambda: jax.vmap(state(f))(jnp.zeros(2)),
            }
            for vname, thunk in variants.items():
                ck = f"state|{name}|{vk}|{vname}"
                chk.case(ck)
                chk.validated(1)
                try:
                    out, coll = thunk()
                    got = flatten(coll)
                    if vname == "vmap-of-state":
                        out = np.asarray(out)[0]
                        if any(v.shape[0] != 2 for v in got.values()):
                            chk.violation(ck, "values collected under jax.vmap(state(f)) are not batched along a leading axis", {"prog": prog})
                            continue
                        got = {k: v[0] for k, v in got.items()}
                    bad = []
                    if not np.array_equal(np.asarray(out), plain):
                        bad.append(f"state(f) changed the result: {np.asarray(out)} vs {plain}")
                    for q, d in consts.items():
                        # the loop-independent second value: collected as it is or broadcast, never anything else
                        if q not in got:
                            bad.append(f"second tagged value {'/'.join(q)} was not collected")
                        elif not np.all(got[q] == d):
                            bad.append(f"second tagged value {'/'.join(q)} = {got[q].tolist()} expected the constant {d}")
                        got.pop(q, None)
                    if set(got) != set(want):
                        bad.append(f"collected names {sorted('/'.join(k) for k in got)} expected {sorted('/'.join(k) for k in want)}")
                    else:
                        for k in want:
                            if got[k].shape != want[k].shape or not np.array_equal(got[k].astype(np.float32), want[k]):
                                # where scans and vmaps nest, the property fixes the axes (iteration axis, batch axis) but not
                                # their mutual order: another axis order is an Impl-level divergence only
                                perm_ok = mixed[k] and any(np.array_equal(np.transpose(got[k], pm).astype(np.float32), want[k])
                                                          for pm in __import__("itertools").permutations(range(got[k].ndim))
                                                          if np.transpose(got[k], pm).shape == want[k].shape)
                                if perm_ok:
                                    chk.divergence(f"{name}: axis order of {'/'.join(k)} differs from the modelled JAX batching convention")
                                else:
                                    bad.append(f"{'/'.join(k)} = {got[k].tolist()} expected {want[k].tolist()}")
                    if bad:
                        chk.violation(ck, "; ".join(bad[:2]), {"prog": prog})
                except Exception as ex:
                    chk.violation(ck, f"raised {type(ex).__name__}: {str(ex).splitlines()[0][:160] if str(ex) else ''}", {"prog": prog})
    chk.sample({"program": canon(table[len(table) // 2]["prog"]), "expected": table[len(table) // 2]["expect"]})
    chk.cov["rule"] = ("every program of the StateInterp.tla grammar (save / namespace / scan / vmap / nested call, depth <= 3, incl. namespaces "
                       "around and inside scans, nested scans, same-named namespaces, later writes) built as a real function and run as state(f), "
                       "jit(state(f)), seed(state(f)), vmap(state(f)), with jax.vmap and modular_vmap for the inner maps")
    chk.cov["exhaustive"] = True
    return chk.finish()
