"""C05 - traces stay coherent under any history of edits and inference moves."""
from ..common import Check
from .. import gficheck, gfirecord, tlc

INV = ["Coherent", "UpdateOK", "RegenerateOK", "MHOK", "GenerateOK", "ObservedKept", "Telescoping"]
OPS = ["simulate", "generate", "update", "regenerate", "mh", "jit", "resample"]


def run(tier, argv):
    chk = Check("C05", tier)
    # (1) exhaustive: all histories of depth 3 over the smallest program (TLC only: Impl |= Contract in every state)
    ex_progs = ["f2"] if tier == "quick" else ["f2", "fd"]
    cfg = gficheck.write_cfg(f"C05_{tier}_ex.cfg", ex_progs, 3, [o for o in OPS if o != "resample"], 1, "same", INV, sim_scripts="few")
    res = tlc.run("GFI", cfg, workers=16, timeout=3400, tag=f"gfi_c05ex_{__import__('os').getpid()}")
    chk.add_tlc(res, f"C05_{tier}_ex (exhaustive, invariants in every state)")
    tlc.cleanup(res)
    # (2) random histories (TLC -simulate) replayed step by step through the real traces
    plans = [("s1", ["f2", "fd", "fs", "fa", "fb", "c2"], 4, 12 if tier == "quick" else 150, 150 if tier == "quick" else 3000),
             ("s2", ["vd", "vf", "fvf", "fc", "fn3", "fvi", "fcv"], 3, 10 if tier == "quick" else 150, 120 if tier == "quick" else 3000)]
    if tier != "quick":
        plans.append(("s3", ["f2", "fs", "fd", "vd"], 6, 100, 2000))
    for tag, progs, depth, num, maxr in plans:
        cfg = gficheck.write_cfg(f"C05_{tier}_{tag}.cfg", progs, depth, OPS, 1, "all", INV + ["PrintHist"], sim_scripts="all")
        info = gficheck.run_simulation(chk, cfg, set(OPS), num=num, depth=depth, max_replay=maxr, label=f"C05_{tier}_{tag}/simulate", timeout=3400)
        chk.cov.setdefault("replay", []).append({"plan": tag, **info})
    chk.cov["rule"] = ("exhaustive: all histories of length 3 over {simulate|generate} then {update, regenerate, mh(accept/reject), jit round trip} "
                       "on the smallest programs (TLC, invariants Coherent/ObservedKept/Telescoping/... in every state); replay: TLC -simulate "
                       "histories of length 3-6 incl. lane resampling of vectorised traces, stepped through the real trace objects with the "
                       "observable state (choices, score, retval, weight, discard, assess) compared after every step")
    chk.cov["recorded_events"] = gfirecord.run_b(chk, set(), ["f2", "fs", "fa", "fd", "fc", "fvf"], 0, history=3 if tier == "quick" else 40)
    return chk.finish()
