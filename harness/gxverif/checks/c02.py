"""C02 - generate honours constraints and returns the proper importance weight."""
from ..common import Check
from .. import gficheck, gfirecord

QUICK = ["f2", "fn3", "fb", "fv", "fvf", "fs", "fc", "fd", "fa", "fsk"]
THOROUGH = QUICK + ["fr", "fvc", "frk", "fvi", "fcv", "fcg", "fch", "fs2", "fvcb", "fe", "fve", "fsc", "f3d", "cTF", "vf", "sc"]
INV = ["Coherent", "GenerateOK", "GenUnbiased"]


def run(tier, argv):
    chk = Check("C02", tier)
    progs = QUICK if tier == "quick" else THOROUGH
    cfg = gficheck.write_cfg(f"C02_{tier}.cfg", progs, 1, ["generate"], 4 if tier == "quick" else 6, "same", INV)
    for variant in ("eager", "jit"):
        info = gficheck.run_config(chk, cfg, {"generate"}, variant=variant,
                                   max_replay=(1000 if variant == "eager" else 400) if tier == "quick" else (None if variant == "eager" else 6000),
                                   label=f"C02_{tier}/{variant}", timeout=3000)
        chk.cov.setdefault("replay", []).append({"variant": variant, **info})
    chk.cov["rule"] = ("every (program, argument, lane-closed subset of leaf addresses with every value assignment as constraint, outcome of "
                       "every unconstrained site) behaviour of DoGenerate; TLC also checks sum_scripts 2^(-mass+w) = marginal probability "
                       "of the constraint (GenUnbiased); replayed through seed(gf.generate)")
    chk.cov["recorded_events"] = gfirecord.run_b(chk, {"generate"}, QUICK if tier == "quick" else THOROUGH, 12 if tier == "quick" else 150)
    return chk.finish()
