"""C01 - assess is the joint log density; simulate samples exactly from it."""
from ..common import Check
from .. import gficheck, gfirecord

QUICK = ["f2", "fn3", "fb", "fv", "fvf", "fr", "fs", "fc", "fa", "fd", "fvc", "frk", "fvi", "fcv", "fcg", "fch", "fs2", "fe", "fve", "fvcb", "fsk"]
THOROUGH = QUICK + ["fsc", "f3d", "cTF", "vf", "sc"]
INV = ["Coherent", "SimulateOK", "SimTotalProb"]


def run(tier, argv):
    chk = Check("C01", tier)
    progs = QUICK if tier == "quick" else THOROUGH
    for variant in ("eager", "jit"):
        cfg = gficheck.write_cfg(f"C01_{tier}.cfg", progs, 1, ["simulate"], 0, "same", INV)
        info = gficheck.run_config(chk, cfg, {"simulate"}, variant=variant,
                                   max_replay=(1200 if tier == "quick" else None) if variant == "eager" else (600 if tier == "quick" else 4000),
                                   label=f"C01_{tier}/{variant}")
        chk.cov.setdefault("replay", []).append({"variant": variant, **info})
    chk.cov["rule"] = ("every (program, argument, outcome of every sample site) behaviour of GFI.tla's DoSimulate for the corpus; "
                       "replayed through seed(gf.simulate) eagerly and under jax.jit; distinct by (program, arg, script)")
    n = gfirecord.run_b(chk, {"simulate"}, ["f2", "fn3", "fv", "fvf", "fs", "fc", "fa", "fd"] if tier == "quick" else THOROUGH,
                        200 if tier == "quick" else 500, chi2=True)
    chk.cov["recorded_events"] = n
    return chk.finish()
