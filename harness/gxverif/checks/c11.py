"""C11 - ADEV value and gradient estimators are unbiased (exact for enumeration)."""
import math
import random
from fractions import Fraction

import numpy as np

from .. import jaxcompat  # noqa: F401
import jax
import jax.numpy as jnp

from ..common import Check, MachineryError
from .. import tlc
from ..tlaval import printed_values
import genjax.adev as adev
from genjax.adev import (expectation, Dual, flip_enum, flip_mvd, normal_reparam, reinforce, flip_reinforce, flip_enum_parallel,
                         categorical_enum_parallel)
from genjax.core import distribution
from genjax import seed
import genjax.distributions as D

Q = []          # scripted draws in execution order: ("flip", bool) | ("normal", eps)


class _FlipDouble:
    """double for the module-level `flip` used inside prim_jvp_estimate rules (flip_mvd): pops one scripted outcome per call."""

    def sample(self, p, **kw):
        k, v = Q.pop(0)
        assert k == "flip", (k, v)
        return jnp.asarray(bool(v))

    def logpdf(self, *a, **k):
        return D.flip.logpdf(*a, **k)


class _NormalDouble:
    """double for the module-level `normal` used by normal_reparam: returns the scripted standard-normal noise."""

    def sample(self, loc, scale, **kw):
        k, v = Q.pop(0)
        assert k == "normal", (k, v)
        return jnp.asarray(loc) * 0 + jnp.asarray(v, dtype=jnp.float32)

    def logpdf(self, *a, **k):
        return D.normal.logpdf(*a, **k)


def _pop_flip(p):
    k, v = Q.pop(0)
    assert k == "flip"
    return jnp.asarray(bool(v))


def _pop_normal(loc, scale):
    k, v = Q.pop(0)
    assert k == "normal"
    return loc + scale * jnp.asarray(v, dtype=jnp.float32)


# REINFORCE primitives built with the public factory over scripted samplers (the rule under test is REINFORCE.prim_jvp_estimate)
# (the keyful samplers are only traced while the program is staged - shapes matter, values do not - and must not consume the script)
s_flip_rf = distribution(reinforce(_pop_flip, D.flip.logpdf, lambda key, p, sample_shape=(): jnp.asarray(p) > 2.0), D.flip.logpdf)
s_normal_rf = distribution(reinforce(_pop_normal, D.normal.logpdf, lambda key, l, s, sample_shape=(): l + 0.0 * s), D.normal.logpdf)


def fr(q):
    return Fraction(q[0], q[1])


def mk_program(pg, scripted):
    kinds, pk, c = list(pg["kinds"]), list(pg["pk"]), [float(fr(x)) for x in pg["c"]]

    def f(theta):
        vals = []
        for i, k in enumerate(kinds):
            if k in ("enum", "mvd", "rf"):
                p = theta if pk[i] == "t" else 0.5 * (theta + vals[i - 1])
                if k == "enum":
                    b = flip_enum(p)
                elif k == "mvd":
                    b = flip_mvd(p)
                else:
                    b = s_flip_rf(p) if scripted else flip_reinforce(p)
                vals.append(jnp.where(b, 1.0, 0.0))
            elif k == "rep":
                vals.append(normal_reparam(theta, 1.0))
            else:
                vals.append(s_normal_rf(theta, 0.5))
        r = c[0] * theta
        for i, v in enumerate(vals):
            r = r + c[i + 1] * v * theta
        if len(vals) >= 2:
            r = r + c[3] * vals[0] * vals[1]
        return r
    return expectation(f)


def pname(pg):
    return "/".join(f"{k}:{p}" for k, p in zip(pg["kinds"], pg["pk"])) + "|c=" + ",".join(str(fr(x)) for x in pg["c"])


def scriptable(pg):
    """every draw happens in a Python-level call we can script: no sampled site after an mvd site (its pure continuation re-samples
    later sites through keyed impl rules that cannot be intercepted)."""
    ks = list(pg["kinds"])
    return all(k != "mvd" or i == len(ks) - 1 for i, k in enumerate(ks))


def run(tier, argv):
    chk = Check("C11", tier)
    rng = random.Random(chk.seed)
    res = tlc.run("ADEV", "gen/C11.cfg" if False else "ADEV_2.cfg", workers=1, timeout=1500, extra=[])
    # a second run prints the outcome tables (kept apart so that the invariant run stays fast)
    import os
    with open(os.path.join(tlc.SPECS, "gen", "C11_print.cfg"), "w") as f:
        f.write("SPECIFICATION Spec\nCONSTANTS MaxSites = 2\nINVARIANT Unbiased\nINVARIANT EnumExact\nINVARIANT PrintCase\n")
    chk.add_tlc(res, "ADEV_2.cfg (Unbiased, EnumExact)")
    tlc.cleanup(res)
    if tier != "quick":
        r3 = tlc.run("ADEV", "ADEV_3.cfg", workers=16, timeout=3400)
        chk.add_tlc(r3, "ADEV_3.cfg (Unbiased, EnumExact; 3 sites)")
        tlc.cleanup(r3)
    res = tlc.run("ADEV", "gen/C11_print.cfg", workers=1, timeout=1500)
    cases = printed_values(res.stdout, '<<"CASE"') + printed_values(res.stdout, '<< "CASE"')
    tlc.cleanup(res)
    if len(cases) < 100:
        raise MachineryError("ADEV.tla printed too few cases")
    saved = (adev.flip, adev.normal)
    key0 = jax.random.key(chk.seed + 13)
    n_script = 0
    try:
        adev.flip, adev.normal = _FlipDouble(), _NormalDouble()
        # ---------------- (A) scripted replay of every outcome (programs whose draws are all scriptable)
        todo = [c for c in cases if scriptable(c[1])]
        if tier == "quick" and len(todo) > 130:
            todo = rng.sample(todo, 130)
        for (_, pg, th, outs) in todo:
            theta = float(fr(th))
            E = mk_program(pg, scripted=True)
            for o in outs:
                ck = f"adev-scripted|{pname(pg)}|theta={fr(th)}|draws={[(d['k'], str(d['v'])) for d in o['draws']]}"
                chk.case(ck)
                chk.validated(1)
                n_script += 1
                Q[:] = [(d["k"], d["v"] if d["k"] == "flip" else float(fr(d["v"]))) for d in o["draws"]]
                try:
                    d = E.jvp_estimate(Dual(jnp.asarray(theta, dtype=jnp.float32), jnp.asarray(1.0, dtype=jnp.float32)))
                    wp, wt = float(fr(o["p"])), float(fr(o["t"]))
                    bad = []
                    if Q:
                        bad.append(f"{len(Q)} scripted draws were not consumed (the estimator drew less than specified)")
                    if abs(float(d.primal) - wp) > 1e-4 * (1 + abs(wp)):
                        bad.append(f"primal {float(d.primal)} expected {wp}")
                    if abs(float(d.tangent) - wt) > 1e-4 * (1 + abs(wt)):
                        bad.append(f"tangent {float(d.tangent)} expected {wt}")
                    if not bad:
                        Q[:] = [(d_["k"], d_["v"] if d_["k"] == "flip" else float(fr(d_["v"]))) for d_ in o["draws"]]
                        g = E.grad_estimate(jnp.asarray(theta, dtype=jnp.float32))
                        if abs(float(g) - wt) > 1e-4 * (1 + abs(wt)):
                            bad.append(f"grad_estimate {float(g)} expected {wt}")
                    if bad:
                        chk.violation(ck, "; ".join(bad), {"program": pname(pg)})
                except (IndexError, AssertionError) as ex:
                    chk.violation(ck, f"the estimator drew more / other randomness than specified ({type(ex).__name__})", {"program": pname(pg)})
                except Exception as ex:
                    chk.violation(ck, f"raised {type(ex).__name__}: {str(ex).splitlines()[0][:140] if str(ex) else ''}", {"program": pname(pg)})
    finally:
        adev.flip, adev.normal = saved
        Q[:] = []
    # ---------------- (B) real randomness: every observed (primal, tangent) must be an outcome of the specification, the sample
    #                  mean of the tangents must agree with the exact derivative; enumeration-only programs are key-independent
    disc = [c for c in cases if all(k in ("enum", "mvd", "rf") for k in c[1]["kinds"])]
    if tier == "quick":
        disc = rng.sample(disc, min(len(disc), 40))
    nkeys = 400 if tier == "quick" else 4000
    for n_disc, (_, pg, th, outs) in enumerate(disc):
        if n_disc and n_disc % 40 == 0:
            jax.clear_caches()
        theta = float(fr(th))
        E = mk_program(pg, scripted=False)
        ck = f"adev-seeded|{pname(pg)}|theta={fr(th)}"
        chk.case(ck)
        chk.validated(1)
        support = [(float(fr(o["p"])), float(fr(o["t"])), float(fr(o["prob"]))) for o in outs]
        exact_t = sum(p * t for (_, t, p) in support)
        try:
            f = jax.jit(jax.vmap(lambda k: seed(lambda: E.jvp_estimate(Dual(jnp.asarray(theta), jnp.asarray(1.0))))(k)))
            d = f(jax.random.split(jax.random.fold_in(key0, hash(ck) % 100000), nkeys))
            ps, ts = np.asarray(d.primal), np.asarray(d.tangent)
            bad = []
            for a, b in zip(ps, ts):
                if not any(abs(a - sp) <= 1e-4 * (1 + abs(sp)) and abs(b - st) <= 1e-4 * (1 + abs(st)) for (sp, st, _) in support):
                    bad.append(f"observed (primal, tangent) = ({a}, {b}) is not an outcome of the specification")
                    break
            sd = float(np.std(ts)) / math.sqrt(nkeys)
            if abs(float(np.mean(ts)) - exact_t) > 6.5 * sd + 1e-4:
                bad.append(f"mean tangent {float(np.mean(ts))} deviates from the exact derivative {exact_t} by more than 6.5 standard errors ({sd})")
            if all(k == "enum" for k in pg["kinds"]) and (np.ptp(ts) > 1e-5 or np.ptp(ps) > 1e-5):
                bad.append("enumeration-only program is not key-independent (non-zero variance)")
            if bad:
                chk.violation(ck, "; ".join(bad), {"program": pname(pg)})
        except Exception as ex:
            chk.violation(ck, f"raised {type(ex).__name__}: {str(ex).splitlines()[0][:140] if str(ex) else ''}", {"program": pname(pg)})
    run_batched_sites(chk, tier)
    run_cond_programs(chk, tier, rng, key0)
    c = cases[len(cases) // 3]
    chk.sample({"program": pname(c[1]), "theta": str(fr(c[2])), "n_outcomes": len(c[3]), "first_outcome": str(c[3][0])[:300]})
    chk.cov["scripted_outcomes"] = n_script
    chk.cov["rule"] = ("ADEV.tla: every program of <= MaxSites sites over {flip_enum, flip_mvd, REINFORCE(flip), normal_reparam, REINFORCE(normal)} with "
                       "parameter-dependent and value-dependent probabilities, theta on a rational grid; TLC proves sum prob*tangent = exact "
                       "derivative and exactness of enumeration; (A) every outcome of the scriptable programs replayed with scripted draws on the real "
                       "expectation programs (jvp_estimate, grad_estimate); (B) seeded runs (jit, vmap over keys) of every discrete program incl. "
                       "the exported flip_reinforce: observed (primal, tangent) pairs must be specification outcomes, means within 6.5 s.e.")
    chk.assumptions.append("(B) uses a 6.5 standard-error screen on seeded sample means (false-alarm probability ~1e-10 per case)")
    return chk.finish()


# ======================================================================================================================
# batched sites: flip_enum / flip_mvd over a vector or a matrix of probabilities (ADEVVec.tla)
class _VecFlipDouble:
    def __init__(self):
        self.q = []

    def sample(self, p, **kw):
        b = self.q.pop(0)
        return jnp.asarray(b, dtype=bool).reshape(jnp.shape(p))

    def logpdf(self, *a, **k):
        return D.flip.logpdf(*a, **k)


def run_batched_sites(chk, tier):
    A = np.array([1.0, 0.5, 0.25, 0.75], dtype=np.float32)
    W = np.array([1.0, 2.0, 3.0, 4.0], dtype=np.float32)
    saved = adev.flip
    dbl = _VecFlipDouble()
    try:
        adev.flip = dbl
        for cfg, shape in (("ADEVVec_2.cfg", (2,)), ("ADEVVec_4.cfg", (2, 2))):
            res = tlc.run("ADEVVec", cfg, workers=1, timeout=1500)
            chk.add_tlc(res, cfg + " (Unbiased)")
            vcases = printed_values(res.stdout, '<<"VCASE"') + printed_values(res.stdout, '<< "VCASE"')
            tlc.cleanup(res)
            if len(vcases) != 3:
                raise MachineryError(f"ADEVVec printed {len(vcases)} cases")
            m = int(np.prod(shape))
            a, w = jnp.asarray(A[:m].reshape(shape)), jnp.asarray(W[:m].reshape(shape))
            for prim_name, prim in (("flip_enum", flip_enum), ("flip_mvd", flip_mvd)):
                @expectation
                def f(theta, prim=prim):
                    b = prim(theta * a)
                    bf = jnp.where(b, 1.0, 0.0)
                    flat = jnp.reshape(bf, (-1,))
                    return theta * jnp.sum(w * bf) + 5.0 * flat[0] * flat[-1]
                for (_, mm, th, outs, exact) in vcases:
                    theta = float(fr(th))
                    for (b, prob, pval, tval) in outs:
                        bl = [bool(x) for x in b]
                        ck = f"adev-batched|{prim_name}|shape={shape}|theta={fr(th)}|b={''.join('1' if x else '0' for x in bl)}"
                        chk.case(ck)
                        chk.validated(1)
                        dbl.q = [bl]
                        try:
                            d = f.jvp_estimate(Dual(jnp.asarray(theta, dtype=jnp.float32), jnp.asarray(1.0, dtype=jnp.float32)))
                            wp, wt = float(fr(pval)), float(fr(tval))
                            bad = []
                            if dbl.q:
                                bad.append("the batched site did not draw its outcome vector")
                            if abs(float(d.primal) - wp) > 1e-4 * (1 + abs(wp)):
                                bad.append(f"primal {float(d.primal)} expected {wp}")
                            if abs(float(d.tangent) - wt) > 1e-4 * (1 + abs(wt)):
                                bad.append(f"tangent {float(d.tangent)} expected {wt} (sum over outcomes of prob * tangent must be the exact derivative {float(fr(exact))})")
                            if bad:
                                chk.violation(ck, "; ".join(bad), {})
                        except Exception as ex:
                            chk.violation(ck, f"raised {type(ex).__name__}: {str(ex).splitlines()[0][:140] if str(ex) else ''}", {})
    finally:
        adev.flip = saved


# ======================================================================================================================
# control flow: sample sites inside the branches of a lax.cond, parallel enumeration (ADEVCond.tla)
_PRIMS = {"enum": flip_enum, "penum": flip_enum_parallel, "mvd": flip_mvd, "rf": flip_reinforce}


def mk_cond_program(pg):
    def coef(blk):
        return [float(fr(x)) for x in blk["r"]]

    def run_block(blk, theta):
        vals = []
        for it in blk["items"]:
            if it["k"] == "site":
                if it["kind"] == "pcat":
                    logits = jnp.log(jnp.stack([theta / 2, theta / 2, 1 - theta]))
                    vals.append(jnp.asarray(categorical_enum_parallel(logits), dtype=jnp.float32))
                else:
                    p = theta if it["pk"] == "t" else 0.5 * (theta + vals[-1])
                    vals.append(jnp.where(_PRIMS[it["kind"]](p), 1.0, 0.0))
            else:
                pred = (theta > 0.375) if it["pred"] == "th" else (vals[-1] > 0.5)
                T, F = it["T"], it["F"]
                vals.append(jax.lax.cond(pred, lambda th, T=T: run_block(T, th), lambda th, F=F: run_block(F, th), theta))
        r = coef(blk)
        if blk["rk"] == "top":
            out = r[0] * theta
            for i, v in enumerate(vals):
                out = out + r[i + 1] * v * theta
            s = sum(vals[1:], vals[0])
            return out + r[4] * s * s
        out = r[0] * theta
        if len(vals) >= 1:
            out = out + r[1] * vals[0]
        if len(vals) >= 2:
            out = out + r[2] * vals[0] * vals[1]
        return out
    return expectation(lambda theta: run_block(pg, theta))


def cname(blk):
    def one(it):
        if it["k"] == "site":
            return f"{it['kind']}:{it['pk']}"
        return f"cond[{it['pred']}]({cname(it['T'])} | {cname(it['F'])})"
    return ";".join(one(it) for it in blk["items"]) or "-"


def kinds_of(blk):
    out = set()
    for it in blk["items"]:
        out |= {it["kind"]} if it["k"] == "site" else kinds_of(it["T"]) | kinds_of(it["F"])
    return out


def penum_then_cond_on_value(blk):
    items = blk["items"]
    for i, it in enumerate(items):
        if it["k"] == "cond":
            if it["pred"] == "v" and i > 0 and items[i - 1]["k"] == "site" and items[i - 1]["kind"] == "penum":
                return True
            if penum_then_cond_on_value(it["T"]) or penum_then_cond_on_value(it["F"]):
                return True
    return False


def run_cond_programs(chk, tier, rng, key0):
    import os
    known = tlc.run("ADEVCond", "ADEVCond_known.cfg", workers=1, timeout=600, allow_violation=True)
    if known.invariant_violated != "Unbiased":
        raise MachineryError("ADEVCond_known.cfg (interpreter of the pinned commit: cond remainder applied to the branch estimate) was not refuted")
    chk.cov.setdefault("defect_models_refuted", []).append("ADEVCond_known.cfg: Unbiased")
    tlc.cleanup(known)
    cases = []
    for cfg in (("ADEVCond_q.cfg", "ADEVCond_q2.cfg") if tier == "quick" else ("ADEVCond_t.cfg", "ADEVCond_t2.cfg", "ADEVCond_t3.cfg")):
        with open(os.path.join(tlc.SPECS, "gen", "C11_cond_print.cfg"), "w") as f:
            f.write(open(os.path.join(tlc.SPECS, cfg)).read() + "INVARIANT PrintCase\n")
        res = tlc.run("ADEVCond", "gen/C11_cond_print.cfg", workers=16, timeout=3400)
        chk.add_tlc(res, cfg + " (Unbiased, EnumExact; programs with sites inside cond branches, parallel enumeration)")
        cases += printed_values(res.stdout, '<<"CCASE"') + printed_values(res.stdout, '<< "CCASE"')
        tlc.cleanup(res)
    if len(cases) < 300:
        raise MachineryError(f"ADEVCond.tla printed {len(cases)} cases")
    byprog = {}
    for (_, pg, th, ex, sup) in cases:
        byprog.setdefault(cname(pg), (pg, []))[1].append((th, ex, sup))
    names = sorted(byprog)
    enum_only = [n for n in names if kinds_of(byprog[n][0]) <= {"enum", "penum", "pcat"}]
    mixed = [n for n in names if n not in enum_only]
    n_each = 22 if tier == "quick" else 250
    todo = rng.sample(enum_only, min(n_each, len(enum_only))) + rng.sample(mixed, min(n_each, len(mixed)))
    fam = [n for n in enum_only if penum_then_cond_on_value(byprog[n][0])]
    todo += [n for n in fam[:2] if n not in todo]          # the recorded finding is exercised on every run
    nested = [n for n in mixed if any(it["k"] == "cond" and any(j["k"] == "cond" for j in it["T"]["items"]) for it in byprog[n][0]["items"])
              and n not in todo]
    todo += rng.sample(nested, min(8 if tier == "quick" else 60, len(nested)))      # a cond nested in a branch, with mvd / rf sites
    pc = [n for n in enum_only if "pcat" in kinds_of(byprog[n][0]) and n not in todo]
    todo += rng.sample(pc, min(4 if tier == "quick" else 40, len(pc)))
    nkeys = 300 if tier == "quick" else 3000
    for n_todo, name in enumerate(todo):
        if n_todo and n_todo % 40 == 0:
            jax.clear_caches()      # one jit per program: drop finished executables (mapped-memory limits of long runs)
        pg, rows = byprog[name]
        E = mk_cond_program(pg)
        exact_only = name in enum_only
        try:
            f = jax.jit(jax.vmap(lambda k, th: seed(lambda: E.jvp_estimate(Dual(th, jnp.ones_like(th))))(k), in_axes=(0, None)))
            ge = jax.jit(lambda k, th: seed(E.estimate)(k, th))
            gg = jax.jit(lambda k, th: seed(E.grad_estimate)(k, th))
        except Exception as ex_:
            chk.violation(f"adev-cond|{name}", f"raised {type(ex_).__name__}", {})
            continue
        for (th, ex, sup) in rows:
            theta = float(fr(th))
            ck = f"adev-cond|{name}|theta={fr(th)}"
            chk.case(ck)
            chk.validated(1)
            ep, et = float(fr(ex[0])), float(fr(ex[1]))
            support = [(float(fr(p)), float(fr(t)), float(fr(pr))) for (pr, p, t) in sup]
            bad = []
            try:
                kk = jax.random.fold_in(key0, hash(ck) % 100000)
                n = 4 if exact_only else nkeys
                d = f(jax.random.split(kk, n), jnp.asarray(theta, dtype=jnp.float32))
                ps, ts = np.asarray(d.primal), np.asarray(d.tangent)
                for a, b in zip(ps, ts):
                    if not any(abs(a - sp) <= 2e-4 * (1 + abs(sp)) and abs(b - st) <= 2e-4 * (1 + abs(st)) for (sp, st, _) in support):
                        bad.append(f"observed (primal, tangent) = ({a}, {b}) is not an outcome of the specification (exact value {ep}, derivative {et})")
                        break
                if exact_only:
                    v = ge(kk, jnp.asarray(theta, dtype=jnp.float32))
                    if abs(float(v) - ep) > 2e-4 * (1 + abs(ep)):
                        bad.append(f"estimate {float(v)} expected the exact value {ep}")
                    try:
                        gr = gg(kk, jnp.asarray(theta, dtype=jnp.float32))
                        if abs(float(gr) - et) > 2e-4 * (1 + abs(et)):
                            bad.append(f"grad_estimate {float(gr)} expected the exact derivative {et}")
                    except NotImplementedError as ex_:
                        if penum_then_cond_on_value(pg) and "stop_gradient" in str(ex_):
                            # recorded finding: reverse mode through a cond that JAX vectorised over the enumerated value
                            if chk.violation("family=parallel-enum-then-cond-on-value|grad_estimate",
                                             f"grad_estimate raised NotImplementedError (transpose of stop_gradient), e.g. {name}", {"program": name}):
                                pass
                        else:
                            raise
                else:
                    for what, xs, want in (("tangent", ts, et), ("primal", ps, ep)):
                        sd = float(np.std(xs)) / math.sqrt(n)
                        if abs(float(np.mean(xs)) - want) > 6.5 * sd + 2e-4:
                            bad.append(f"mean {what} {float(np.mean(xs))} deviates from the exact {want} by more than 6.5 standard errors ({sd})")
            except Exception as ex_:
                bad.append(f"raised {type(ex_).__name__}: {str(ex_).splitlines()[0][:140] if str(ex_) else ''}")
            if bad:
                chk.violation(ck, "; ".join(bad[:2]), {"program": name})
    chk.cov["cond_programs_run"] = len(todo)
    chk.cov["cond_programs_in_model"] = len(names)
