"""C03 - update returns the density ratio, keeps unconstrained choices, and is invertible."""
from ..common import Check
from .. import gficheck, gfirecord

QUICK = ["f2", "fs", "fa", "fd", "fvf"]
THOROUGH = QUICK + ["fn3", "fv", "fr", "fc", "fsc", "cTF"]
INV = ["Coherent", "UpdateOK"]


def run(tier, argv):
    chk = Check("C03", tier)
    plans = [("a", ["f2", "fs", "fd"], "all", 2), ("b", ["fa", "fvf", "fc", "fn3", "fb", "fs2", "fsk"], "few", 1),
             ("c", ["sc", "sc2", "cTF", "fcg", "fch"], "few", 1)]            # c: the trace's own gen_fn is a Scan / a Cond (recorded arguments)
    if tier != "quick":
        plans = [("a", ["f2", "fs", "fd", "fa", "fc"], "all", 2), ("b", ["fvf", "fn3", "fv", "fr", "fsc", "cTF", "fs2", "fe", "fve"], "few", 2),
                 ("c", ["sc", "sc2", "cTF", "c2", "fcg", "fch", "fcv"], "few", 2)]
    for tag, progs, sims, maxc in plans:
        cfg = gficheck.write_cfg(f"C03_{tier}_{tag}.cfg", progs, 2, ["simulate", "update"], maxc, "all", INV, sim_scripts=sims)
        info = gficheck.run_config(chk, cfg, {"update"}, variant="eager", min_depth=2,
                                   max_replay=600 if tier == "quick" else 15000, label=f"C03_{tier}_{tag}/eager", timeout=3000)
        chk.cov.setdefault("replay", []).append({"variant": "eager", "plan": tag, **info})
    chk.cov["rule"] = ("every (simulated trace, new argument incl. ones that flip a Cond condition or change Scan/Vmap inputs, constraint over a "
                       "lane-closed subset of <= MaxCons leaves with every value) behaviour of DoUpdate; the real discard is fed back (round trip); "
                       "plan b starts from the 3 constant-script traces per argument")
    chk.cov["recorded_events"] = gfirecord.run_b(chk, {"update"}, QUICK if tier == "quick" else THOROUGH, 12 if tier == "quick" else 150)
    return chk.finish()
