"""C10 - SMC particles are properly weighted; the evidence estimate is unbiased."""
import json
import math
import os
import random
from fractions import Fraction

import numpy as np

from .. import jaxcompat  # noqa: F401
import jax
import jax.numpy as jnp

from ..common import Check, MachineryError, quantise, LN2
from .. import tlc, gficheck
from ..tlaval import printed_values
from genjax import gen, seed, const, sel
from genjax.core import distribution
from genjax.pjax import wrap_sampler, wrap_logpdf, modular_vmap
import genjax.inference.smc as smc
import genjax.inference.mcmc as mcmc
import genjax.distributions as D

K = 3
TRANS = jnp.array([[-(1.0 if z == p else 2.0) * LN2 for z in range(K)] for p in range(K)], dtype=jnp.float32)
EMIT = jnp.array([[-(1.0 if x == (z + 1) % K else 2.0) * LN2 for x in range(K)] for z in range(K)], dtype=jnp.float32)
QP = jnp.array([[-(1.0 if z == (x + 2) % K else 2.0) * LN2 for z in range(K)] for x in range(K)], dtype=jnp.float32)


def _ks(key, v, row, sample_shape=()):
    """scripted sampler: returns its first parameter; a vector parameter of the sample_shape is laid out along the lanes."""
    v = jnp.asarray(v)
    ss = tuple(sample_shape)
    if ss and v.shape[:len(ss)] == ss:
        return v
    return jnp.broadcast_to(v, ss + v.shape)


forced = distribution(wrap_sampler(_ks, name="forced"), wrap_logpdf(lambda x, v, row: row[x]), name="forced")


@gen
def hmm(prev, script):
    z = forced(script, TRANS[prev]) @ "z"
    forced(jnp.asarray(0), EMIT[z]) @ "x"
    return z


# closure-carried lane scripts for sites whose parameters are NOT batched (smc.init vectorises with in_axes=None, so no
# argument can differ per particle): the sampler reads the current script at staging time and lays it out with the TFP
# shape law sample_shape + batch_shape; it must not close over array constants (values are built from a tracer-derived zero).
BOX = {}


def _mk_closure_site(name, dtype=jnp.int32):
    def ks(key, row, sample_shape=()):
        vals = [int(a) for a in np.asarray(BOX[name]).reshape(-1)]
        zero = (jnp.sum(row) * 0).astype(dtype)
        ss = tuple(sample_shape)
        n = int(np.prod(ss)) if ss else 1
        if n == 1:
            return jnp.reshape(zero + vals[0], ss)
        assert n == len(vals), (ss, vals)
        return jnp.stack([zero + a for a in vals]).reshape(ss)
    return distribution(wrap_sampler(ks, name="c_" + name), wrap_logpdf(lambda x, row: row[x]), name="c_" + name)


cz = _mk_closure_site("z")
cu = _mk_closure_site("u")
UROW = jnp.array([-(1.0 if u == 0 else 2.0) * LN2 for u in range(K)], dtype=jnp.float32)


@gen
def hmm_init(prev):
    z = cz(TRANS[prev]) @ "z"
    forced(jnp.asarray(0), EMIT[z]) @ "x"
    return z


# the same step model with a second latent u that no custom proposal proposes (filled in by the model's own proposal)
@gen
def hmm_u(prev, script):
    z = forced(script["z"], TRANS[prev]) @ "z"
    forced(script["u"], UROW) @ "u"
    forced(jnp.asarray(0), EMIT[z]) @ "x"
    return z


@gen
def hmm_u_init(prev):
    z = cz(TRANS[prev]) @ "z"
    cu(UROW) @ "u"
    forced(jnp.asarray(0), EMIT[z]) @ "x"
    return z


@gen
def prop_ext_u(constraints, old_choices, prev, script):
    return forced(script["z"], QP[constraints["x"]]) @ "z"


@gen
def prop_init(constraints, prev):
    return cz(QP[constraints["x"]]) @ "z"


@gen
def prop_ext(constraints, old_choices, prev, script):
    return forced(script, QP[constraints["x"]]) @ "z"


class _Scripted:
    """double for module-level distributions: pops one scripted array per .sample call and returns it through a real sample
    site (so seed / modular_vmap still see a sampling site). `lanes=True`: the values are per-lane (closure-carried, laid out
    along the sample_shape that modular_vmap adds for a site with unbatched parameters)."""

    def __init__(self, real, dtype, lanes=False):
        self.real, self.dtype, self.q, self.calls, self.lanes = real, dtype, [], 0, lanes
        self._s = wrap_sampler(lambda key, v, sample_shape=(): jnp.asarray(v), name="scripted")

    def sample(self, *a, sample_shape=(), **kw):
        self.calls += 1
        vals = self.q.pop(0)
        if not self.lanes:
            v = jnp.asarray(vals, dtype=self.dtype)
            if self.real is D.uniform and len(a) >= 2:
                # the script is the standard-uniform quantile of the draw: the bounds the code asks for matter
                lo, hi = jnp.asarray(a[0], dtype=self.dtype), jnp.asarray(a[1], dtype=self.dtype)
                v = lo + (hi - lo) * v
            return self._s(v)
        vals = [float(v) for v in vals]
        dtype = self.dtype

        def ks(key, lo, sample_shape=()):
            zero = (jnp.asarray(lo) * 0).astype(dtype)
            ss = tuple(sample_shape)
            if not ss:
                return zero + vals[0]
            return jnp.stack([zero + v for v in vals]).reshape(ss)
        return wrap_sampler(ks, name="scripted_lanes")(jnp.asarray(0.0))

    def logpdf(self, *a, **k):
        return self.real.logpdf(*a, **k)


def rat(q):
    return Fraction(q[0], q[1])


def replay(beh, n, prev0, key, with_u=False):
    """run one behaviour of SMC.tla on the real smc module; returns list of mismatch strings."""
    hist, mass, zhat = beh
    bad = []
    U, C, MU = _Scripted(D.uniform, jnp.float32), _Scripted(D.categorical, jnp.int32), _Scripted(D.uniform, jnp.float32, lanes=True)
    saved = (smc.uniform, smc.categorical, mcmc.uniform)
    smc.uniform, smc.categorical, mcmc.uniform = U, C, MU
    pc = None
    cur_z = None
    try:
        for step, h in enumerate(hist):
            mv = h["move"]
            if mv in ("init", "init_prop"):
                zs = jnp.asarray(list(h["zs"]), dtype=jnp.int32)
                BOX["z"] = list(h["zs"])
                BOX["u"] = list(h["us"])
                # a fresh lambda per call: staging is cached per function object, the closure script must be re-read
                pc = seed(lambda: smc.init(hmm_u_init if with_u else hmm_init, (jnp.asarray(prev0),), const(n), {"x": jnp.asarray(h["obs"])},
                                           prop_init if mv == "init_prop" else None))(key)
                pc0 = pc
            elif mv in ("extend", "extend_prop"):
                zs = jnp.asarray(list(h["zs"]), dtype=jnp.int32)
                prevs = pc.traces.get_retval()
                if with_u:
                    scr = {"z": zs, "u": jnp.asarray(list(h["us"]), dtype=jnp.int32)}
                    pc = seed(lambda p: smc.extend(p, hmm_u, (prevs, scr), {"x": jnp.asarray(h["obs"])},
                                                   prop_ext_u if mv == "extend_prop" else None))(key, pc)
                else:
                    pc = seed(lambda p: smc.extend(p, hmm, (prevs, zs), {"x": jnp.asarray(h["obs"])},
                                                   prop_ext if mv == "extend_prop" else None))(key, pc)
            elif mv == "resample_cat":
                C.q = [[a - 1 for a in h["anc"]]]
                pc = seed(lambda p: smc.resample(p, "categorical"))(key, pc)
            elif mv == "essr":
                # the adaptive step of rejuvenation_smc, composed by hand from the public pieces it uses
                W = [int(w) for w in h["W"]]
                exact = sum(W) ** 2 / float(sum(w * w for w in W))
                ess = float(pc.effective_sample_size())
                if abs(ess - exact) > 1e-3 * exact:
                    bad.append(f"effective_sample_size {ess} expected {exact}")
                if (ess < n // 2) != bool(h["fired"]):
                    bad.append(f"ESS trigger: ess={ess}, n//2={n // 2}, the specification says fired={h['fired']}")
                if h["fired"]:
                    C.q = [[a - 1 for a in h["anc"]]]
                    pc = seed(lambda p: smc.resample(p))(key, pc)
            elif mv == "resample_sys":
                U.q = [(2 * h["k"] + 1) / (2.0 * h["tot"])]
                pc = seed(lambda p: smc.resample(p, "systematic"))(key, pc)
            elif mv == "rejuv":
                zs = jnp.asarray(list(h["zs"]), dtype=jnp.int32)
                # install the proposal script into the traces' arguments (a weight-neutral argument update), then rejuvenate
                if with_u:
                    newtr = modular_vmap(lambda tr, s: hmm_u.update(tr, None, tr.get_args()[0][0], {"z": s, "u": s * 0})[0], in_axes=(0, 0))(pc.traces, zs)
                else:
                    newtr = modular_vmap(lambda tr, s: hmm.update(tr, None, tr.get_args()[0][0], s)[0], in_axes=(0, 0))(pc.traces, zs)
                pc = smc.ParticleCollection(traces=newtr, log_weights=pc.log_weights, diagnostic_weights=pc.diagnostic_weights,
                                            n_samples=pc.n_samples, log_marginal_estimate=jnp.asarray(pc.log_marginal_estimate))
                us = []
                for i in range(n):
                    alpha = min(1.0, 2.0 ** h["w"][i])
                    us.append(alpha / 2.0 if h["acc"][i] else (1.0 + alpha) / 2.0)
                MU.q = [us]
                pc = seed(lambda p: smc.rejuvenate(p, lambda t: mcmc.mh(t, sel("z"))))(key, pc)
                if MU.q:
                    bad.append("rejuvenate: the kernel did not draw its accept thresholds")
            else:
                raise MachineryError(mv)
            if mv in ("init", "init_prop"):
                post_init = True
            # ---- observe and compare with the specification state after this move
            z = np.asarray(pc.traces.get_choices()["z"]).tolist()
            lw = [quantise(v) for v in np.asarray(pc.log_weights)]
            want_lw = list(h["lw"])
            if lw != want_lw:
                bad.append(f"after {mv} (step {step + 1}): log weights {lw} expected {want_lw} (ln2 units)")
            if mv in ("init", "init_prop", "extend", "extend_prop") and z != list(h["zs"]):
                bad.append(f"after {mv}: particle choices {z} expected {list(h['zs'])}")
            if with_u and mv in ("init", "init_prop", "extend", "extend_prop"):
                u = np.asarray(pc.traces.get_choices()["u"]).tolist()
                if u != list(h["us"]):
                    bad.append(f"after {mv}: unproposed latent u {u} expected {list(h['us'])}")
            if mv == "rejuv":
                want_z = [h["zs"][i] if h["acc"][i] else cur_z[i] for i in range(n)]
                if z != want_z:
                    bad.append(f"after rejuvenate: particle choices {z} expected {want_z} (accept pattern {list(h['acc'])})")
            if mv in ("resample_cat", "resample_sys", "essr"):
                want_z = [cur_z[a - 1] for a in h["anc"]]
                if z != want_z:
                    bad.append(f"after resample: particle choices {z} expected {want_z} (ancestors {list(h['anc'])})")
            cur_z = z
            # estimate(): the weighted particle average sum_i wbar_i f(x_i), for vector- and matrix-valued f (SMC.tla WAvg)
            wts = [2.0 ** v for v in want_lw]
            wavg = [sum(w for w, zz in zip(wts, z) if zz == v) / sum(wts) for v in range(3)]
            try:
                e1 = np.asarray(pc.estimate(lambda c: jax.nn.one_hot(c["z"], 3)))
                e2 = np.asarray(pc.estimate(lambda c: jax.nn.one_hot(c["z"], 3)[:, None] * jnp.ones((1, 2))))
                if e1.shape != (3,) or np.max(np.abs(e1 - np.asarray(wavg))) > 1e-5:
                    bad.append(f"after {mv}: estimate(one_hot(z)) = {e1.tolist()} expected the weighted frequencies {wavg}")
                elif e2.shape != (3, 2) or np.max(np.abs(e2 - np.asarray(wavg)[:, None])) > 1e-5:
                    bad.append(f"after {mv}: estimate of a matrix-valued function = {e2.tolist()} expected {wavg} in both columns")
            except Exception as ex:
                bad.append(f"after {mv}: estimate raised {type(ex).__name__}: {str(ex).splitlines()[0][:120] if str(ex) else ''}")
            if int(pc.n_samples.value) != n:
                bad.append("particle count changed")
            if mv in ("init", "init_prop"):
                # harness-side, weight-neutral: re-home the particles under the argument-scripted model (same choices, same
                # weights) so that later per-particle moves can be scripted through the traces' arguments
                ch = pc.traces.get_choices()
                prevs = jnp.full((n,), prev0, dtype=jnp.int32)
                if with_u:
                    tr2, _ = modular_vmap(lambda c, p_, s_: hmm_u.generate(c, p_, {"z": s_, "u": s_}), in_axes=(0, 0, 0))(ch, prevs, jnp.zeros((n,), jnp.int32))
                else:
                    tr2, _ = modular_vmap(lambda c, p_, s_: hmm.generate(c, p_, s_), in_axes=(0, 0, 0))(ch, prevs, jnp.zeros((n,), jnp.int32))
                pc = smc.ParticleCollection(traces=tr2, log_weights=pc.log_weights, diagnostic_weights=pc.diagnostic_weights,
                                            n_samples=pc.n_samples, log_marginal_estimate=jnp.asarray(pc.log_marginal_estimate))
        lml = float(pc.log_marginal_likelihood())
        if abs(lml - math.log(float(rat(zhat)))) > 2e-5:
            bad.append(f"log_marginal_likelihood {lml} expected log({rat(zhat)}) = {math.log(float(rat(zhat)))}")
    except Exception as ex:
        bad.append(f"raised {type(ex).__name__}: {str(ex).splitlines()[0][:200] if str(ex) else ''}")
    finally:
        smc.uniform, smc.categorical, mcmc.uniform = saved
    return bad


def run(tier, argv):
    chk = Check("C10", tier)
    rng = random.Random(chk.seed)
    key = jax.random.key(chk.seed + 9)
    plans = [(2, p, "a", False) for p in ("ie", "irce", "irse", "ije", "ipep", "iprsep", "ierce", "ijrcj")] + [(3, p, "b", False) for p in ("ie", "irse", "ipep")]
    plans += [(2, "ipep", "c", True), (2, "iprsep", "b", True), (2, "ie", "a", True)]       # a latent the custom proposal does not propose
    if tier != "quick":
        plans += [(2, "iersje", "c", False), (3, "irce", "a", False), (3, "ije", "c", False), (3, "iprsep", "b", False), (2, "ierce", "b", False),
                  (2, "ijrcj", "c", False), (2, "ije", "b", True), (4, "ieq", "a", False)]
    os.makedirs(os.path.join(tlc.SPECS, "gen"), exist_ok=True)
    per = 40 if tier == "quick" else 400
    for n, pipe, obs, with_u in plans:
        cfgname = f"gen/C10_{pipe}_{n}_{obs}_{int(with_u)}.cfg"
        with open(os.path.join(tlc.SPECS, cfgname), "w") as f:
            f.write(f'SPECIFICATION Spec\nCONSTANTS N = {n}\n  PipeName = "{pipe}"\n  ObsName = "{obs}"\n  Prev0 = 0\n  WithU = {"TRUE" if with_u else "FALSE"}\n'
                    "INVARIANT WeightsNonPositive\nINVARIANT Accumulate\nINVARIANT AccumulatePost\nINVARIANT PrintHist\nPROPERTY RejuvenateKeepsWeights\nPOSTCONDITION AllUnbiased\n")
        res = tlc.run("SMC", cfgname, workers=1, timeout=1500)
        chk.add_tlc(res, f"SMC N={n} pipeline={pipe} obs={obs} unproposed-latent={with_u} (Unbiased and PostUnbiased postconditions hold)")
        behs = printed_values(res.stdout, '<<"BEH"') + printed_values(res.stdout, '<< "BEH"')
        tlc.cleanup(res)
        if not behs:
            raise MachineryError(f"no behaviours printed for {cfgname}")
        chosen = behs if len(behs) <= per else rng.sample(behs, per)
        for b in chosen:
            hist = [dict(h) for h in b[1]]
            kk = f"smc|N={n}|pipe={pipe}|obs={obs}|u={int(with_u)}|" + ">".join(
                h["move"] + ":" + ",".join(str(v) for v in (h.get("zs") or h.get("anc") or ())) +
                ("/" + "".join("A" if a else "R" for a in h["acc"]) if "acc" in h else "") for h in hist)
            chk.case(kk)
            chk.validated(1)
            bad = replay((hist, b[2], b[3]), n, 0, key, with_u)
            if bad:
                chk.violation(kk, "; ".join(bad[:3]), {"N": n, "pipeline": pipe, "obs": obs, "history": [str(h) for h in hist]})
        chk.sample({"N": n, "pipeline": pipe, "behaviour": [h["move"] for h in [dict(x) for x in chosen[0][1]]], "Zhat": list(chosen[0][3])})
    record_rejuvenation_smc(chk, tier)
    chk.cov["rule"] = ("SMC.tla: every behaviour (all particle draws, ancestor vectors / offset intervals, accept patterns) of hand-composed pipelines "
                       "init/extend (default and custom proposal) / resample (both methods) / rejuvenate(mh) for N in {2,3}; TLC proves E[Zhat] = "
                       "evidence exactly after every move (registers + POSTCONDITION); a seeded sample of behaviours per pipeline is replayed on "
                       "the real smc module with scripted randomness, weights / choices / log_marginal_likelihood compared after every move; "
                       "direction B: seeded runs of the real rejuvenation_smc (jit, N in {2,3,4,6}, T in {2,3}, with and without mh rejuvenation) recorded "
                       "per step and validated by TLC (SMCTrace.tla infers pre-rejuvenation latents and ancestors; ESS trigger, weights, estimate)")
    return chk.finish()


# ======================================================================================================================
# direction (B): the real rejuvenation_smc with REAL randomness, recorded step by step and validated by TLC (SMCTrace.tla)
from genjax import categorical  # noqa: E402


@gen
def hmm_real(prev):
    z = categorical(TRANS[prev]) @ "z"
    categorical(EMIT[z]) @ "x"
    return z


def record_rejuvenation_smc(chk, tier):
    import json as _json
    from ..tlaval import printed_values as _pv
    rng = random.Random(chk.seed + 4)
    events = []
    n_runs = 300 if tier == "quick" else 3000
    kernel = const(lambda t: mcmc.mh(t, sel("z")))
    cache = {}
    for r in range(n_runs):
        # (N, T) pairs: the recorded integers stay inside TLC's 32-bit range; N >= 4 lets the ESS trigger fire
        N, T = rng.choice([(2, 2), (3, 3), (4, 4), (6, 4), (8, 3), (8, 3)])
        obs = [rng.randrange(3) for _ in range(T)]
        rejuv = bool(r % 2)
        ck = (N, T, rejuv)
        if ck not in cache:
            cache[ck] = jax.jit(seed(lambda o: smc.rejuvenation_smc(hmm_real, None, kernel if rejuv else None, {"x": o}, (jnp.asarray(0),),
                                                                     const(N), const(True), const(2 if rejuv else 1))))
        out = cache[ck](jax.random.key(chk.seed * 1009 + r), jnp.asarray(obs, dtype=jnp.int32))
        zs = np.asarray(out.traces.get_choices()["z"])
        lws = np.asarray(out.log_weights)
        lme = np.asarray(out.log_marginal_estimate)
        steps = []
        ok = True
        for t in range(T):
            scale = (4.0 * N) ** (t + 1)
            v = math.exp(float(lme[t])) * scale
            if abs(v - round(v)) > 1e-3 * max(1.0, v):
                ok = False
            steps.append({"z": [int(a) for a in zs[t]], "lw": [quantise(a) for a in lws[t]], "zs": int(round(v))})
        if not ok:
            chk.violation(f"smc-trace|run={r}|estimate-not-on-grid", "exp(log_marginal_estimate) * (4N)^t is not an integer", {"N": N, "obs": obs})
            continue
        events.append({"N": N, "obs": obs, "steps": steps, "rejuv": rejuv, "prev0": 0})
    rej = _validate_smc(chk, events, "real")
    chk.validated(len(events) - len(rej))
    for i, f in rej.items():
        e = events[i - 1]
        chk.violation(f"smc-trace|N={e['N']}|obs={e['obs']}|rejuv={e['rejuv']}|steps={f}|z={[s['z'] for s in e['steps']]}",
                      f"recorded rejuvenation_smc run rejected by SMCTrace at step(s) {f}", e)
    # binding demo: corrupt one weight and one estimate
    demo = [_json.loads(_json.dumps(e)) for e in events[:6]]
    demo[0]["steps"][0]["lw"][0] -= 3          # (event 1 has no rejuvenation: its latents pin the weights)
    demo[3]["steps"][-1]["zs"] += 1
    r2 = _validate_smc(None, demo, "demo")
    if 1 not in r2 or 4 not in r2:
        raise MachineryError(f"binding demo failed for SMCTrace: {r2}")
    chk.cov["binding_demo"].append(f"a recorded weight lowered by one and an estimate raised by one make SMCTrace reject events {sorted(r2)}")
    chk.sample({"kind": "recorded rejuvenation_smc run", **events[0]})
    chk.cov["recorded_smc_runs"] = len(events)


def _validate_smc(chk, events, tag):
    import json as _json
    from ..tlaval import printed_values as _pv
    d = os.path.join(tlc.OUT, f"smctrace_{tag}_{os.getpid()}")
    os.makedirs(d, exist_ok=True)
    f = os.path.join(d, "events.json")
    with open(f, "w") as fh:
        _json.dump(events, fh)
    res = tlc.run("SMCTrace", "SMCTrace.cfg", workers=1, env={"TRACE_FILE": f}, allow_violation=True, timeout=2400,
                  tag=f"smctrace_run_{tag}_{os.getpid()}")
    if "ALLCHECKED" not in res.stdout:
        raise MachineryError("SMCTrace did not complete:\n" + "\n".join(res.stdout.splitlines()[-25:]))
    rej = {}
    for v in _pv(res.stdout, '<<"REJECT"') + _pv(res.stdout, '<< "REJECT"'):
        rej[v[1]] = sorted(v[2])
    if chk is not None:
        fired = _pv(res.stdout, '<<"FIRED"') + _pv(res.stdout, '<< "FIRED"')
        chk.cov["recorded_steps_with_ess_triggered_resampling"] = sum(len(v[2]) for v in fired)
        chk.add_tlc(res, "SMCTrace/" + tag)
    tlc.cleanup(res)
    __import__("shutil").rmtree(d, ignore_errors=True)
    return rej
