"""C16 - selections are a Boolean algebra on addresses; filter/merge partition choices.

TLC (specs/Selection.tla) checks Impl |= Contract over the bounded expression space and exports the
Den table; this driver evaluates every exported expression on the real genjax selection objects:
  (1) the remainder chain + `() in s` (what regenerate consults) against Den for every path <= depth 3,
  (2) gf.filter / gf.merge on real traces of several choice-map shapes (nested, vectorised, Cond-merged, Scan),
  (3) which leaves regenerate resamples and which leaves mala / hmc move.
(B) random deeper expressions over a 3-letter alphabet are recorded from the real objects and validated by
TLC against Den (specs/SelectionTrace.tla).
"""
import json
import os
import random

from .. import jaxcompat  # noqa: F401
import jax
import jax.numpy as jnp
import numpy as np

from .. import tlc
from ..common import Check, MachineryError
from ..selbuild import mk_sel, canon, selected_by_chain, leaves, get_path

from genjax import gen, normal, Cond, Scan, const, seed
import genjax.inference.mcmc as mcmc
import genjax.distributions as D
from genjax.pjax import wrap_sampler


# ---- programs whose choice maps have the shapes of Selection.tla ------------------------------------------
@gen
def leafpair(mu):
    a = normal(mu, 1.0) @ "a"
    b = normal(a, 1.0) @ "b"
    return b


@gen
def leafpair2(mu):
    a = normal(mu + 3.0, 2.0) @ "a"
    b = normal(a, 2.0) @ "b"
    return b


@gen
def p_flat():
    a = normal(0.0, 1.0) @ "a"
    return normal(a, 1.0) @ "b"


@gen
def p_nested():
    a = leafpair(0.0) @ "a"
    return normal(a, 1.0) @ "b"


@gen
def p_four():
    a = leafpair(0.0) @ "a"
    return leafpair(a) @ "b"


@gen
def mid(mu):
    a = leafpair(mu) @ "a"
    return normal(a, 1.0) @ "b"


@gen
def p_deep():
    a = mid(0.0) @ "a"
    return normal(a, 1.0) @ "b"


@gen
def p_single():
    return normal(0.0, 1.0) @ "a"


@gen
def p_vec():
    a = leafpair.vmap(in_axes=(0,))(jnp.zeros(3)) @ "a"
    return normal.vmap(in_axes=(0, None))(a, 1.0) @ "b"


@gen
def p_cond(flag):
    a = Cond(leafpair, leafpair2)(flag, 0.0) @ "a"
    return normal(a, 1.0) @ "b"


@gen
def scan_step(c, x):
    a = normal(c + x, 1.0) @ "a"
    b = normal(a, 1.0) @ "b"
    return b, b


@gen
def p_scan():
    (c, outs) = Scan(scan_step, length=const(3))(0.0, jnp.zeros(3)) @ "a"
    return normal(c, 1.0) @ "b"


PROGRAMS = {
    "flat": (p_flat, (), {("a",), ("b",)}),
    "nested": (p_nested, (), {("a", "a"), ("a", "b"), ("b",)}),
    "four": (p_four, (), {("a", "a"), ("a", "b"), ("b", "a"), ("b", "b")}),
    "deep": (p_deep, (), {("a", "a", "a"), ("a", "a", "b"), ("a", "b"), ("b",)}),
    "single": (p_single, (), {("a",)}),
    "vec": (p_vec, (), {("a", "a"), ("a", "b"), ("b",)}),
    "condT": (p_cond, (jnp.array(True),), {("a", "a"), ("a", "b"), ("b",)}),
    "condF": (p_cond, (jnp.array(False),), {("a", "a"), ("a", "b"), ("b",)}),
    "scan": (p_scan, (), {("a", "a"), ("a", "b"), ("b",)}),
}


class _AcceptAll:
    """double for mcmc.uniform: a real sample site that returns a tiny threshold (always accept)."""
    _s = staticmethod(wrap_sampler(lambda key, lo, hi, sample_shape=(): jnp.full(tuple(sample_shape), 1e-30) + 0.0 * lo,
                                   name="accept_all"))

    def sample(self, lo, hi, **kw):
        return self._s(jnp.asarray(lo, dtype=jnp.float32), jnp.asarray(hi, dtype=jnp.float32))

    def logpdf(self, *a, **k):
        return D.uniform.logpdf(*a, **k)


def _changed(old, new, shape):
    out = set()
    for q in shape:
        o, n = np.asarray(get_path(old, q)), np.asarray(get_path(new, q))
        if o.shape != n.shape or np.any(o != n):
            out.add(q)
    return out


def _eq_tree(x, y):
    if isinstance(x, dict) != isinstance(y, dict):
        return False
    if isinstance(x, dict):
        return set(x) == set(y) and all(_eq_tree(x[k], y[k]) for k in x)
    return np.array_equal(np.asarray(x), np.asarray(y))


def _fmt(ps):
    return sorted("/".join(p) for p in ps)


def run(tier, argv):
    chk = Check("C16", tier)
    rng = random.Random(chk.seed)
    # ---------------------------------------------------------------- TLC: Impl |= Contract, export Den table
    cfgs = ["Selection_small.cfg"] if tier == "quick" else ["Selection_small.cfg", "Selection_full.cfg",
                                                             "Selection_small2.cfg"]
    tables = {}
    for cfg in cfgs:
        res = tlc.run("Selection", cfg, workers=16, coverage=(cfg == "Selection_small.cfg"), timeout=3000 if tier == "quick" else 7000)
        chk.add_tlc(res, cfg)
        if cfg == "Selection_small.cfg" and res.coverage.get("Grow", 0) == 0:
            raise MachineryError("vacuity: Grow action never taken")
        for row in tlc.load_json(res, "sel_table.json"):
            tables[canon(row["e"])] = (row["e"], {tuple(p) for p in row["sel"]})
        tlc.cleanup(res)
    # the defect model (Fn.filter deciding by the hit flag) must still be refuted by TLC: keeps FilterAgree non-vacuous
    res = tlc.run("Selection", "Selection_prefix.cfg", workers=4, allow_violation=True, timeout=600)
    if res.invariant_violated != "FilterAgreeOld":
        raise MachineryError("vacuity guard: TLC no longer refutes the hit-flag filter model")
    chk.cov["binding_demo"].append("TLC refutes FilterAgreeOld (hit-flag filter) at an initial state: the filter invariant is not vacuous")
    tlc.cleanup(res)

    paths = [p for n in (1, 2, 3) for p in __import__("itertools").product("ab", repeat=n)]
    exprs = sorted(tables)
    # ---------------------------------------------------------------- (1) match chain vs Den, every expression/path
    for name in exprs:
        e, den = tables[name]
        s = mk_sel(e)
        got = {p for p in paths if selected_by_chain(s, p)}
        chk.case(("chain", name))
        if got != den:
            bad = sorted(got ^ den)[0]
            chk.violation(f"chain|sel={name}|path={'/'.join(bad)}",
                          f"path {'/'.join(bad)} selected-by-implementation={bad in got} but Boolean algebra says {bad in den} for {name}",
                          {"sel": e, "impl": _fmt(got), "spec": _fmt(den)})
    chk.sample({"kind": "chain", "sel": exprs[len(exprs) // 2], "spec_selected_paths": _fmt(tables[exprs[len(exprs) // 2]][1])})

    # ---------------------------------------------------------------- (2) filter / merge on real traces, all expressions
    traces = {}
    for pname, (gf, args, shape) in PROGRAMS.items():
        tr = seed(gf.simulate)(jax.random.key(chk.seed + 11), *args)
        x = tr.get_choices()
        if leaves(x) != shape:
            raise MachineryError(f"shape program {pname} has leaves {leaves(x)}")
        traces[pname] = tr
    for name in exprs:
        e, den = tables[name]
        s = mk_sel(e)
        for pname, (gf, args, shape) in PROGRAMS.items():
            x = traces[pname].get_choices()
            want = {q for q in shape if q in den}
            key = f"filter|prog={pname}|sel={name}"
            chk.case(("filter", pname, name))
            try:
                a, b = gf.filter(x, s)
                la, lb = leaves(a), leaves(b)
                ok = la == want and lb == shape - want and not (la & lb)
                if ok:
                    # merge back: None parts are empty
                    if a is None:
                        m = b
                    elif b is None:
                        m = a
                    else:
                        m, _ = gf.merge(b, a)
                    ok = _eq_tree(m, x)
                    msg = "merge(filter parts) != x"
                else:
                    msg = f"filter selected {_fmt(la)} / unselected {_fmt(lb)}, Boolean algebra selects {_fmt(want)}"
                if ok:
                    # values of the selected part are the original leaves
                    ok = all(np.array_equal(np.asarray(get_path(a, q)), np.asarray(get_path(x, q))) for q in la)
                    msg = "filter changed a leaf value"
            except Exception as ex:  # definedness
                ok, msg = False, f"filter/merge raised {type(ex).__name__}: {str(ex)[:120]}"
            if not ok:
                chk.violation(key, msg, {"sel": e, "program": pname, "spec_selected": _fmt(want)})
    chk.sample({"kind": "filter", "program": "deep", "shape": _fmt(PROGRAMS["deep"][2])})

    # ---------------------------------------------------------------- (3) regenerate / mala / hmc move sets (sampled)
    base = [n for n in exprs if tables[n][0]["k"] in ("all", "none", "str", "tup", "dict")]
    base += [f"not({n})" for n in list(base) if f"not({n})" in tables]
    rest = [n for n in exprs if n not in set(base)]
    n_regen = 150 if tier == "quick" else 1500
    n_grad = 25 if tier == "quick" else 250
    regen_set = base + rng.sample(rest, min(n_regen, len(rest)))
    grad_set = set(base[:len(base)] + rng.sample(rest, min(n_grad, len(rest))))
    saved_uniform = mcmc.uniform
    mcmc.uniform = _AcceptAll()
    try:
        for name in regen_set:
            e, den = tables[name]
            s = mk_sel(e)
            for pname, (gf, args, shape) in PROGRAMS.items():
                tr = traces[pname]
                x = tr.get_choices()
                want = {q for q in shape if q in den}
                chk.case(("regen", pname, name))
                try:
                    ntr, w, disc = seed(gf.regenerate)(jax.random.key(chk.seed + 17), tr, s, *args)
                    got = _changed(x, ntr.get_choices(), shape)
                    if got != want:
                        chk.violation(f"regenerate-set|prog={pname}|sel={name}",
                                      f"regenerate resampled {_fmt(got)}, Boolean algebra selects {_fmt(want)}",
                                      {"sel": e, "program": pname})
                except Exception as ex:
                    chk.violation(f"regenerate-raises|prog={pname}|exc={type(ex).__name__}",
                                  f"regenerate raised {type(ex).__name__}: {str(ex)[:160]} (first seen with sel={name})",
                                  {"sel": e, "program": pname})
                if name in grad_set and pname in ("flat", "nested", "deep", "vec", "scan", "condT"):
                    for kname, kern in (("mala", lambda t: seed(lambda tt: mcmc.mala(tt, s, 0.25))(jax.random.key(chk.seed + 19), t)),
                                        ("hmc", lambda t: seed(lambda tt: mcmc.hmc(tt, s, 0.25, 2))(jax.random.key(chk.seed + 23), t))):
                        chk.case((kname, pname, name))
                        try:
                            out = kern(tr)
                            got = _changed(x, out.get_choices(), shape)
                            if got != want:
                                chk.violation(f"{kname}-set|prog={pname}|sel={name}",
                                              f"{kname} moved {_fmt(got)}, Boolean algebra selects {_fmt(want)}",
                                              {"sel": e, "program": pname})
                        except Exception as ex:
                            chk.violation(f"{kname}-raises|prog={pname}|sel={name}",
                                          f"{kname} raised {type(ex).__name__}: {str(ex)[:160]}", {"sel": e, "program": pname})
    finally:
        mcmc.uniform = saved_uniform
    chk.sample({"kind": "regenerate/mala/hmc move-set", "sel": regen_set[-1], "programs": list(PROGRAMS)})

    # ---------------------------------------------------------------- (B) random deeper expressions -> TLC trace validation
    n_ev = 400 if tier == "quick" else 4000
    events = []
    alpha = "abc"

    def rand_expr(d):
        r = rng.random()
        if d == 0 or r < 0.25:
            c = rng.choice(["all", "none", "str", "tup", "tup", "dict"])
            if c == "str":
                return {"k": "str", "s": rng.choice(alpha)}
            if c == "tup":
                return {"k": "tup", "t": [rng.choice(alpha) for _ in range(rng.randint(1, 3))]}
            if c == "dict":
                ks = rng.sample(alpha, rng.randint(1, 2))
                return {"k": "dict", "d": {k: rand_expr(max(d - 1, 0)) for k in ks}}
            return {"k": c}
        if r < 0.45:
            return {"k": "not", "x": rand_expr(d - 1)}
        return {"k": rng.choice(["or", "and"]), "x": rand_expr(d - 1), "y": rand_expr(d - 1)}
    for i in range(n_ev):
        e = rand_expr(rng.randint(1, 4))
        p = [rng.choice(alpha) for _ in range(rng.randint(1, 4))]
        events.append({"e": e, "p": p, "selected": bool(selected_by_chain(mk_sel(e), tuple(p)))})
    _validate_events(chk, events, "random")
    # binding demo: a corrupted record must be rejected
    bad = [dict(ev) for ev in events[:20]]
    bad[7]["selected"] = not bad[7]["selected"]
    rej = _validate_events(None, bad, "corrupt")
    if rej != [8]:
        raise MachineryError(f"binding demo failed: corrupted event not rejected (rejected={rej})")
    chk.cov["binding_demo"].append("flipping the recorded verdict of event 8 makes SelectionTrace reject exactly that event")
    chk.sample({"kind": "trace-event", **events[0]})

    chk.cov["rule"] = ("every expression of the TLC-enumerated space (atoms: all/none/str/tup/dict; not/or/and to the cfg depth) x "
                       "every path of length 1..3 over {a,b} (chain), x 9 shape programs (filter/merge); regenerate on a seeded sample "
                       "plus all atoms and complements; mala/hmc on a smaller sample; a case is distinct by (kind, program, expression)")
    chk.cov["exhaustive"] = True
    chk.assumptions.append("continuous resampled/moved leaves change value with probability 1 (move-set detection)")
    return chk.finish()


def _validate_events(chk, events, tag):
    """TLC evaluates Den on every recorded (expression, path, verdict) - specs/SelectionTrace.tla."""
    d = os.path.join(tlc.OUT, f"seltrace_{tag}_{os.getpid()}")
    os.makedirs(d, exist_ok=True)
    f = os.path.join(d, "events.json")
    with open(f, "w") as fh:
        json.dump(events, fh)
    res = tlc.run("SelectionTrace", "SelectionTrace.cfg", workers=1, env={"TRACE_FILE": f}, allow_violation=True,
                  timeout=1200, tag=f"seltrace_run_{tag}_{os.getpid()}")
    rejected = []
    for line in res.stdout.splitlines():
        if line.startswith("<<\"REJECT\""):
            rejected.append(int(line.split(",")[1].strip(" >")))
    if "ALLCHECKED" not in res.stdout:
        raise MachineryError("SelectionTrace did not run to completion:\n" + "\n".join(res.stdout.splitlines()[-25:]))
    if chk is not None:
        chk.add_tlc(res, "SelectionTrace.cfg/" + tag)
        chk.validated(len(events) - len(rejected))
        for i in rejected:
            ev = events[i - 1]
            chk.violation(f"chain|sel={canon(ev['e'])}|path={'/'.join(ev['p'])}",
                          f"recorded verdict selected={ev['selected']} rejected by Den", ev)
    tlc.cleanup(res)
    __import__("shutil").rmtree(d, ignore_errors=True)
    return rejected
