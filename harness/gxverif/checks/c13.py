"""C13 - distributions: documented parameters, normalised density, matching sampler.

The parameter-convention / density part is decided by exact tables computed in specs/Dists.tla (log ring); the sampler part is
a statistical screen with fixed keys (DESIGN.md section 5: only partly within reach of a TLA+ specification) - level: exploration.
"""
import math
from fractions import Fraction

import numpy as np

from .. import jaxcompat  # noqa: F401
import jax
import jax.numpy as jnp

from ..common import Check, MachineryError
from .. import tlc
from genjax import seed, modular_vmap, tfp_distribution
import genjax.distributions as D
import genjax
from tensorflow_probability.substrates import jax as tfp

tfd = tfp.distributions
CONSTS = [1.0, math.log(2), math.log(3), math.log(5), math.log(7), math.log(math.pi)]


def fr(q):
    return Fraction(q[0], q[1])


def ring(lp):
    return sum(float(fr(c)) * k for c, k in zip(lp, CONSTS))


def conv(p):
    if isinstance(p, dict):
        if "ln" in p:
            return jnp.asarray(math.log(float(fr(p["ln"]))), dtype=jnp.float32)
        if "vec" in p:
            return jnp.stack([conv(x) for x in p["vec"]])
        if "mat" in p:
            return jnp.stack([jnp.stack([conv(x) for x in row]) for row in p["mat"]])
    if p == "true":
        return jnp.asarray(True)
    if p == "false":
        return jnp.asarray(False)
    return jnp.asarray(float(fr(p)), dtype=jnp.float32)


def call_args(how, params):
    ps = [conv(p) for p in params]
    if how == "pos":
        return ps, {}
    names = how.split(":")[1].split(",")
    return [], dict(zip(names, ps))


def binom_p(k, n, p):
    """two-sided-ish tail screen: normal approximation z-score."""
    return abs(k - n * p) / math.sqrt(n * p * (1 - p))


# sampler screens: (distribution, positional args, kwargs, kind, spec)
#   kind "cdf": list of (q, P(X <= q)) exact;  kind "pmf": {value: probability} (rest lumped)
E1 = math.exp(-1.0)
SAMPLERS = [
    ("bernoulli", [math.log(3.0)], {}, "pmf", {1: 0.75, 0: 0.25}),
    ("flip", [0.25], {}, "pmf", {True: 0.25, False: 0.75}),
    ("categorical", [np.log(np.array([0.5, 0.25, 0.25]))], {}, "pmf", {0: 0.5, 1: 0.25, 2: 0.25}),
    ("geometric", [], {"probs": 0.25}, "pmf", {k: 0.25 * 0.75 ** k for k in range(6)}),
    ("poisson", [2.0], {}, "pmf", {k: math.exp(-2) * 2 ** k / math.factorial(k) for k in range(6)}),
    ("binomial", [], {"total_count": 4.0, "probs": 0.25}, "pmf", {k: math.comb(4, k) * 0.25 ** k * 0.75 ** (4 - k) for k in range(5)}),
    ("negative_binomial", [], {"total_count": 2.0, "probs": 0.25}, "pmf", {k: (k + 1) * 0.25 ** k * 0.75 ** 2 for k in range(5)}),
    ("zipf", [2.0], {}, "pmf", {k: 6 / (math.pi ** 2 * k * k) for k in range(1, 5)}),
    ("normal", [1.0, 2.0], {}, "cdf", [(1.0, 0.5), (1.0 + 2 * 0.6744897501960817, 0.75)]),
    ("uniform", [0.0, 4.0], {}, "cdf", [(1.0, 0.25), (2.0, 0.5)]),
    ("exponential", [2.0], {}, "cdf", [(math.log(2) / 2, 0.5), (0.5, 1 - E1)]),
    ("beta", [2.0, 3.0], {}, "cdf", [(0.5, 11 / 16)]),
    ("gamma", [2.0, 3.0], {}, "cdf", [(1 / 3, 1 - 2 * E1)]),
    ("log_normal", [0.0, 1.0], {}, "cdf", [(1.0, 0.5)]),
    ("student_t", [3.0, 0.0, 1.0], {}, "cdf", [(0.0, 0.5)]),
    ("laplace", [0.0, 2.0], {}, "cdf", [(0.0, 0.5), (2.0, 1 - 0.5 * E1)]),
    ("half_normal", [2.0], {}, "cdf", [(2 * 0.6744897501960817, 0.5)]),
    ("inverse_gamma", [2.0, 1.0], {}, "cdf", [(0.5, 3 * math.exp(-2))]),
    ("weibull", [2.0, 1.0], {}, "cdf", [(math.sqrt(math.log(2)), 0.5)]),
    ("cauchy", [0.0, 1.0], {}, "cdf", [(1.0, 0.75)]),
    ("chi2", [2.0], {}, "cdf", [(2 * math.log(2), 0.5)]),
    ("multivariate_normal", [np.zeros(2), np.array([[2.0, 1.0], [1.0, 1.0]])], {}, "cdf0", [(0.0, 0.5), (math.sqrt(2.0) * 0.6744897501960817, 0.75)]),
    ("dirichlet", [np.array([1.0, 2.0, 1.0])], {}, "cdf0", [(0.25, 37 / 64)]),
    ("multinomial", [], {"total_count": 3.0, "probs": np.array([0.5, 0.25, 0.25])}, "cdf0", [(0.5, 1 / 8), (1.5, 1 / 2)]),
]


def run(tier, argv):
    chk = Check("C13", tier, level="exploration")
    res = tlc.run("Dists", "Dists.cfg", workers=1, timeout=600)
    chk.add_tlc(res, "Dists.cfg")
    dj = tlc.load_json(res, "dists.json")
    tlc.cleanup(res)
    table, extra = dj["table"], dj["extra"]
    seen = set()
    for row, ex in zip(table, extra):
        name = row["dist"]
        seen.add(name)
        dist = getattr(D, name)
        want = ring(row["lp"]) + (-(math.log(2.0) ** 2) / 2 if ex == "minus_half_ln2_squared" else 0.0)
        v = conv(row["value"])
        if name in ("bernoulli", "categorical", "geometric", "poisson", "binomial", "negative_binomial", "zipf", "multinomial") and v.dtype != jnp.bool_:
            v = v.astype(jnp.float32) if name not in ("categorical",) else v.astype(jnp.int32)
        args, kw = call_args(row["how"], row["params"])
        ck = f"logpdf|{name}|{row['how']}|params={row['params']}|value={row['value']}"
        chk.case(ck)
        bad = []
        try:
            variants = {
                "logpdf": lambda: dist.logpdf(v, *args, **kw),
                "assess": lambda: dist.assess(v, *args, **kw)[0],
                "modular_vmap": lambda: modular_vmap(lambda vv: dist.logpdf(vv, *args, **kw), in_axes=0)(jnp.stack([v, v]))[1],
                "jit": lambda: jax.jit(lambda vv: dist.logpdf(vv, *args, **kw))(v),
            }
            for vn, th in variants.items():
                got = float(jnp.sum(th()))
                if abs(got - want) > 3e-5 * (1 + abs(want)):
                    bad.append(f"{vn} = {got}, documented log density = {want}")
        except Exception as ex_:
            bad.append(f"raised {type(ex_).__name__}: {str(ex_).splitlines()[0][:140] if str(ex_) else ''}")
        if bad:
            chk.violation(ck, "; ".join(bad[:2]), {"row": row})
    # ---- batching law (Dists.tla BatchPairs): two rows stacked along a new leading axis are the two rows side by side
    DISCRETE = ("bernoulli", "categorical", "geometric", "poisson", "binomial", "negative_binomial", "zipf", "multinomial")
    n_batch = 0
    for (i, j) in dj["pairs"]:
        ri, rj = table[i - 1], table[j - 1]
        name = ri["dist"]
        dist = getattr(D, name)
        try:
            pi_, pj_ = [conv(p) for p in ri["params"]], [conv(p) for p in rj["params"]]
            vi, vj = conv(ri["value"]), conv(rj["value"])
            if any(jnp.shape(a) != jnp.shape(b) for a, b in zip(pi_, pj_)) or jnp.shape(vi) != jnp.shape(vj) or jnp.ndim(vi) > 1:
                continue
            ps = [jnp.stack([a, b]) for a, b in zip(pi_, pj_)]
            v = jnp.stack([vi, vj])
        except Exception:
            continue
        if name in DISCRETE and v.dtype != jnp.bool_:
            v = v.astype(jnp.int32) if name == "categorical" else v.astype(jnp.float32)
        wants = [ring(r["lp"]) + (-(math.log(2.0) ** 2) / 2 if extra[k - 1] == "minus_half_ln2_squared" else 0.0) for r, k in ((ri, i), (rj, j))]
        if ri["how"] == "pos":
            args, kw = ps, {}
        else:
            args, kw = [], dict(zip(ri["how"].split(":")[1].split(","), ps))
        ck = f"batched|{name}|{ri['how']}|rows={i},{j}"
        chk.case(ck)
        n_batch += 1
        bad = []
        try:
            names = list(kw)

            def lanewise(vv, *pp):
                return dist.logpdf(vv, *pp) if ri["how"] == "pos" else dist.logpdf(vv, **dict(zip(names, pp)))
            for vn, th in (("logpdf", lambda: dist.logpdf(v, *args, **kw)), ("assess", lambda: dist.assess(v, *args, **kw)[0]),
                           ("jit", lambda: jax.jit(lambda vv: dist.logpdf(vv, *args, **kw))(v)),
                           ("modular_vmap over the rows", lambda: modular_vmap(lanewise, in_axes=0)(v, *ps)),
                           ("jax.vmap over the rows", lambda: jax.vmap(lanewise, in_axes=0)(v, *ps))):
                out = np.asarray(th())
                if out.shape == (2,):
                    if any(abs(float(out[k]) - wants[k]) > 3e-5 * (1 + abs(wants[k])) for k in (0, 1)):
                        bad.append(f"{vn} of the stacked rows = {out.tolist()}, the rows one by one = {wants}")
                elif abs(float(np.sum(out)) - sum(wants)) > 3e-5 * (1 + abs(sum(wants))):
                    bad.append(f"{vn} of the stacked rows sums to {float(np.sum(out))}, the rows one by one sum to {sum(wants)}")
        except Exception as ex_:
            bad.append(f"raised {type(ex_).__name__}: {str(ex_).splitlines()[0][:140] if str(ex_) else ''}")
        if bad:
            chk.violation(ck, "; ".join(bad[:2]), {"rows": [ri, rj]})
    chk.cov["batched_row_pairs"] = n_batch
    exported = [n for n in D.__dict__ if isinstance(getattr(D, n), genjax.Distribution)]
    missing = sorted(set(exported) - seen)
    if missing:
        raise MachineryError(f"distributions without a table row: {missing}")
    chk.sample({"table_row": {"dist": table[5]["dist"], "params": table[5]["params"], "value": table[5]["value"], "lp_ring": table[5]["lp"]}})
    # a sampler under two nested vectorisations (inner one maps the location, outer one is a plain axis of size m): shape (m, n),
    # entry [i, j] drawn with lane j's parameters
    key2 = jax.random.key(chk.seed + 21)
    mus = jnp.asarray([0.0, 100.0, 200.0, 300.0])
    for dname, dist in (("normal", D.normal), ("user-wrapped normal", tfp_distribution(tfd.Normal, name="user_normal2"))):
        for m in (3, 4):
            ck = f"sampler-nested-vectorisation|{dname}|m={m}"
            chk.case(ck)
            try:
                f = lambda: modular_vmap(lambda: modular_vmap(lambda mu: dist.sample(mu, 0.5), in_axes=0)(mus), axis_size=m)()
                out = np.asarray(seed(f)(key2))
                # (no uniqueness test here: float32 draws at location 300 sit on a coarse grid; independence of lanes is C08's)
                if out.shape != (m, 4):
                    chk.violation(ck, f"shape {out.shape}, the outer axis of size {m} must come first: ({m}, 4)", {})
                elif np.max(np.abs(out - np.asarray(mus)[None, :])) > 10.0:
                    chk.violation(ck, "entry [i, j] is not a draw with lane j's location (the lanes are transposed)", {})
            except Exception as ex_:
                chk.violation(ck, f"raised {type(ex_).__name__}: {str(ex_).splitlines()[0][:140] if str(ex_) else ''}", {})
    # user-wrapped distributions behave the same
    for name, ctor, args, val in (("normal", tfd.Normal, (1.0, 2.0), 3.0), ("exponential", tfd.Exponential, (2.0,), 0.5)):
        ck = f"user-wrapped|{name}"
        chk.case(ck)
        mine = tfp_distribution(ctor, name="user_" + name)
        a, b = float(mine.logpdf(val, *args)), float(getattr(D, name).logpdf(val, *args))
        if abs(a - b) > 1e-6:
            chk.violation(ck, f"user-wrapped tfp_distribution logpdf {a} differs from the built-in {b}", {})
    # ---- samplers: shape / dtype laws (exact) and a fixed-key statistical screen
    n = 20000 if tier == "quick" else 200000
    key = jax.random.key(12345)          # fixed keys (not VERIF_SEED): a statistical screen must not flake
    for i, (name, args, kw, kind, spec) in enumerate(SAMPLERS):
        dist = getattr(D, name)
        jargs = [jnp.asarray(a, dtype=jnp.float32) for a in args]
        jkw = {k: jnp.asarray(v, dtype=jnp.float32) for k, v in kw.items()}
        ck = f"sampler|{name}"
        chk.case(ck)
        bad = []
        try:
            one = seed(lambda: dist.sample(*jargs, **jkw))(jax.random.fold_in(key, i))
            xs = seed(lambda: dist.sample(*jargs, sample_shape=(n,), **jkw))(jax.random.fold_in(key, 1000 + i))
            lanes = seed(modular_vmap(lambda _: dist.sample(*jargs, **jkw), in_axes=0))(jax.random.fold_in(key, 2000 + i), jnp.zeros(5))
            ev = tuple(np.shape(one))
            if tuple(np.shape(xs)) != (n,) + ev:
                bad.append(f"sample_shape=({n},) gives shape {np.shape(xs)}, expected {(n,) + ev}")
            if tuple(np.shape(lanes)) != (5,) + ev:
                bad.append(f"vectorised sampling gives shape {np.shape(lanes)}, expected {(5,) + ev}")
            if name == "flip" and xs.dtype != jnp.bool_:
                bad.append(f"flip yields dtype {xs.dtype}, documented: booleans")
            if len(set(np.asarray(lanes).reshape(5, -1)[:, 0].tolist())) == 1 and kind == "cdf":
                bad.append("vectorised lanes are identical (one draw broadcast)")
            lp = np.asarray(jax.vmap(lambda z: jnp.sum(dist.logpdf(z, *jargs, **jkw)))(xs[:200]))
            if not np.all(np.isfinite(lp)):
                bad.append("a sampled value has non-finite log density (outside the support of its own density)")
            # the same law must hold for sample_shape draws and for vectorised (modular_vmap / repeat) draws
            vec = seed(modular_vmap(lambda _: dist.sample(*jargs, **jkw), in_axes=0))(jax.random.fold_in(key, 3000 + i), jnp.zeros(n))
            for how, x in (("sample_shape", np.asarray(xs)), ("vectorised", np.asarray(vec))):
                if kind == "pmf":
                    for val, p in spec.items():
                        c = int(np.sum(x == val))
                        if binom_p(c, n, p) > 6.5:
                            bad.append(f"{how}: P(X = {val}) observed {c / n:.4f}, documented {p:.4f} (z = {binom_p(c, n, p):.1f})")
                else:
                    xx = x if kind == "cdf" else x.reshape(n, -1)[:, 0]
                    for q, p in spec:
                        c = int(np.sum(xx <= q))
                        if binom_p(c, n, p) > 6.5:
                            bad.append(f"{how}: P(X <= {q:.4f}) observed {c / n:.4f}, documented {p:.4f} (z = {binom_p(c, n, p):.1f})")
        except Exception as ex_:
            bad.append(f"raised {type(ex_).__name__}: {str(ex_).splitlines()[0][:140] if str(ex_) else ''}")
        if bad:
            chk.violation(ck, "; ".join(bad[:3]), {"dist": name})
    # batched parameters passed directly: every row of a logits matrix is its own categorical (softmax over the LAST axis)
    ck = "sampler|categorical|batched-logits"
    chk.case(ck)
    try:
        logits = jnp.log(jnp.asarray([[4.0, 1.0, 1.0], [1.0, 1.0, 2.0]]))
        xs = np.asarray(seed(lambda: D.categorical.sample(logits, sample_shape=(n,)))(jax.random.fold_in(key, 9001)))
        bad = []
        if xs.shape != (n, 2):
            bad.append(f"shape {xs.shape}, expected {(n, 2)}")
        else:
            for r, probs in enumerate([[4 / 6, 1 / 6, 1 / 6], [1 / 4, 1 / 4, 1 / 2]]):
                for k, pk in enumerate(probs):
                    c = int(np.sum(xs[:, r] == k))
                    if binom_p(c, n, pk) > 6.5:
                        bad.append(f"row {r}: P(X = {k}) observed {c / n:.4f}, documented softmax {pk:.4f}")
        if bad:
            chk.violation(ck, "; ".join(bad[:3]), {})
    except Exception as ex_:
        chk.violation(ck, f"raised {type(ex_).__name__}: {str(ex_).splitlines()[0][:140] if str(ex_) else ''}", {})
    chk.cov["rule"] = ("log densities: every row of the Dists.tla table (all 24 exported distributions, 1-3 exactly representable parameter/value "
                       "points each, positional and keyword conventions) through logpdf / assess / modular_vmap / jit; samplers: one parameter set per "
                       "distribution, fixed keys, exact shape and dtype laws, 6.5-sigma screens of pmf values or exact quantile probabilities")
    chk.assumptions += ["sampler claims are statistical screens (fixed keys, |z| <= 6.5), not decisions", "arbitrary parameter values are not covered"]
    chk.cov["evaluations"] = max(chk.cov["evaluations"], 1)
    return chk.finish()
