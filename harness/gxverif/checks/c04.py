"""C04 - regenerate resamples exactly the selection and returns the MH weight."""
from ..common import Check
from .. import gficheck, gfirecord

QUICK = ["f2", "fn3", "fs", "fvf", "fc"]
THOROUGH = QUICK + ["fv", "fr", "fa", "fd", "fsc"]
INV = ["Coherent", "RegenerateOK"]


def run(tier, argv):
    chk = Check("C04", tier)
    plans = [("a", ["f2", "fs", "fd"], "all", "all"), ("b", ["fn3", "fvf", "fc", "fa", "fb", "fs2", "fsk"], "few", "all")]
    if tier != "quick":
        plans = [("a", ["f2", "fs", "fd", "fc", "fa"], "all", "all"), ("b", ["fn3", "fvf", "fv", "fr", "fsc", "fs2", "fcg", "fch", "fe", "fve"], "few", "all"), ("c", ["sc", "sc2", "cTF"], "few", "all")]
    for tag, progs, sims, ua in plans:
        cfg = gficheck.write_cfg(f"C04_{tier}_{tag}.cfg", progs, 2, ["simulate", "regenerate"], 0, ua, INV, sim_scripts=sims)
        info = gficheck.run_config(chk, cfg, {"regenerate"}, variant="eager", min_depth=2,
                                   max_replay=900 if tier == "quick" else 15000, label=f"C04_{tier}_{tag}/eager", timeout=3000)
        chk.cov.setdefault("replay", []).append({"variant": "eager", "plan": tag, **info})
    chk.cov["rule"] = ("every (simulated trace, selection from SelsFor(program): all/none/str/tup/complements/unions over the program's own "
                       "address paths, new argument, outcome of every resampled site) behaviour of DoRegenerate; plan b starts from the 3 "
                       "constant-script traces per argument")
    chk.cov["recorded_events"] = gfirecord.run_b(chk, {"regenerate"}, QUICK if tier == "quick" else THOROUGH, 14 if tier == "quick" else 150)
    return chk.finish()
