"""C09 - mh, mala and hmc are reversible with respect to the posterior."""
from ..common import Check
from .. import gficheck

INV = ["Coherent", "MHOK", "RegenerateOK", "DetailedBalance"]


def run(tier, argv):
    chk = Check("C09", tier)
    # (i) mh on finite dyadic models: TLC checks detailed balance (as the weight identity, see GFI.tla DetailedBalance) for every
    #     observed-data pattern (generate with any constraint), selection, proposal outcome and accept/reject; incl. the
    #     mixture-indicator move (fc, fa, fd: a selected choice decides the branch of a Cond whose own choices are observed)
    plans = [("a", ["f2", "fd", "fc"], 3), ("b", ["fa", "fs", "fb"], 1), ("c", ["cTF", "cdd"], 2)]      # c: the trace's own gen_fn is a Cond
    if tier != "quick":
        plans = [("a", ["f2", "fd", "fc", "fa"], 3), ("b", ["fs", "fvf", "fn3", "fv"], 1), ("c", ["cTF", "cdd", "c2"], 2)]
    for tag, progs, maxc in plans:
        cfg = gficheck.write_cfg(f"C09_{tier}_{tag}.cfg", progs, 2, ["generate", "mh"], maxc, "same", INV, sim_scripts="few")
        info = gficheck.run_config(chk, cfg, {"mh"}, variant="eager", min_depth=2, max_replay=500 if tier == "quick" else 8000,
                                   label=f"C09_{tier}_{tag}/mh", timeout=3000)
        chk.cov.setdefault("replay", []).append({"plan": tag, **info})
    run_gradient_kernels(chk, tier)
    chk.cov["rule"] = ("mh: every (generate with any constraint pattern, selection, proposal outcome, accept/reject) behaviour of GFI.tla incl. "
                       "selections inside Vmap/Scan/Cond sub-calls and the mixture-indicator move (DetailedBalance as the weight identity); "
                       "mala/hmc: every (state, observation, selection, per-coordinate noise, step size) of MCMC.tla on scalar, array-valued and "
                       "multi-address Gaussian targets, thresholds just below/above the exact acceptance probability")
    chk.assumptions.append("mala/hmc: float32 results compared with exact rationals to 2e-5; acceptance probability pinned to +-10% by two thresholds")
    return chk.finish()


# ======================================================================================================================
# (ii) mala / hmc on Gaussian targets: MCMC.tla computes the proposal and log alpha exactly in rationals for every
#      (state, observation, selection, per-coordinate noise, step size); the real kernels run with scripted noise / thresholds.
import math
from fractions import Fraction

import numpy as np

from .. import jaxcompat  # noqa: F401,E402
import jax  # noqa: E402
import jax.numpy as jnp  # noqa: E402

from .. import tlc  # noqa: E402
from ..common import MachineryError  # noqa: E402
from ..tlaval import printed_values  # noqa: E402
from genjax import gen, normal, seed, sel  # noqa: E402
from genjax.pjax import wrap_sampler  # noqa: E402
from genjax.state import state  # noqa: E402
import genjax.inference.mcmc as mcmc  # noqa: E402
import genjax.distributions as D  # noqa: E402


@gen
def t_xy():
    x = normal(0.0, 1.0) @ "x"
    normal(x, 1.0) @ "y"


@gen
def t_xyk(m0, shift=0.0):
    """the "xy" target written with arguments: prior mean (positional) and an observation shift (keyword with a default).
    With m0 = 0 and y_observed = y + shift it is the same posterior as t_xy with y."""
    x = normal(m0, 1.0) @ "x"
    normal(x + shift, 1.0) @ "y"


@gen
def t_vec():
    x = normal(jnp.zeros(2), 1.0) @ "x"
    normal(x, 1.0) @ "y"


@gen
def t_aby():
    a = normal(0.0, 1.0) @ "a"
    b = normal(a, 1.0) @ "b"
    normal(b, 1.0) @ "y"


class _Noise:
    """double for mcmc.normal: .sample pops one scripted array per call (through a real sample site) and logs the requested shape."""

    def __init__(self):
        self.q, self.log = [], []
        self._s = wrap_sampler(lambda key, v, sample_shape=(): jnp.asarray(v), name="scripted_noise")

    def sample(self, loc, scale, **kw):
        v = jnp.asarray(self.q.pop(0), dtype=jnp.float32)
        self.log.append((tuple(jnp.shape(jnp.broadcast_arrays(jnp.asarray(loc), jnp.asarray(scale))[0])), tuple(v.shape)))
        return self._s(v)

    def logpdf(self, *a, **k):
        return D.normal.logpdf(*a, **k)


class _Thresh:
    def __init__(self):
        self.q = []
        self._s = wrap_sampler(lambda key, v, sample_shape=(): jnp.asarray(v), name="scripted_u")

    def sample(self, lo, hi, **kw):
        # the script is the standard-uniform quantile of the draw: the bounds the code asks for matter
        u = jnp.asarray(self.q.pop(0), dtype=jnp.float32)
        return self._s(jnp.asarray(lo, dtype=jnp.float32) + (jnp.asarray(hi, dtype=jnp.float32) - jnp.asarray(lo, dtype=jnp.float32)) * u)

    def logpdf(self, *a, **k):
        return D.uniform.logpdf(*a, **k)


def _f(q):
    return float(Fraction(q[0], q[1]))


def run_gradient_kernels(chk, tier):
    key = jax.random.key(chk.seed + 77)
    NZ, TH = _Noise(), _Thresh()
    saved = (mcmc.normal, mcmc.uniform)
    mcmc.normal, mcmc.uniform = NZ, TH
    import random
    rng = random.Random(chk.seed)
    try:
        for target in ("xy", "vec", "abY"):
            res = tlc.run("MCMC", f"MCMC_{target}.cfg", workers=1, timeout=1500)
            chk.add_tlc(res, f"MCMC_{target}.cfg")
            cases = printed_values(res.stdout, '<<"CASE"') + printed_values(res.stdout, '<< "CASE"')
            tlc.cleanup(res)
            if not cases:
                raise MachineryError("MCMC.tla printed no cases")
            per = 60 if tier == "quick" else 1200
            if len(cases) > per:
                cases = rng.sample(cases, per)
            for n_case, (_, kern, tg, steps, x, y, S, eps, tau, xn, la) in enumerate(cases):
                x = {k: _f(v) for k, v in x.items()}
                eps = {k: _f(v) for k, v in eps.items()}
                xn = {k: _f(v) for k, v in xn.items()}
                yv, tv, lav = _f(y), _f(tau), _f(la)
                S = sorted(S)
                ck = f"{kern}|{tg}{'(kwargs)' if tg == 'xy' and n_case % 2 == 1 else ''}|x={sorted(x.items())}|y={yv}|S={S}|eps={sorted(eps.items())}|tau={tv}|L={steps}"
                chk.case(ck)
                chk.validated(1)
                bad = []
                try:
                    ydelta = 0.0
                    if tg == "xy" and n_case % 2 == 1:
                        # the same target through a program with a positional and a keyword argument (non-default value): the
                        # kernels must evaluate density, gradient and update under the arguments the trace records
                        ydelta = 0.5
                        tr, _ = t_xyk.generate({"x": x["x"], "y": yv + ydelta}, 0.0, shift=ydelta)
                        selection, leaves = sel("x"), [("x", np.float32(eps["x"]))]
                        get = lambda t: {"x": float(t.get_choices()["x"])}
                    elif tg == "xy":
                        tr, _ = t_xy.generate({"x": x["x"], "y": yv})
                        selection, leaves = sel("x"), [("x", np.float32(eps["x"]))]
                        get = lambda t: {"x": float(t.get_choices()["x"])}
                    elif tg == "vec":
                        tr, _ = t_vec.generate({"x": jnp.array([x["x1"], x["x2"]]), "y": jnp.array([yv, yv])})
                        selection, leaves = sel("x"), [("x", np.array([eps["x1"], eps["x2"]], dtype=np.float32))]
                        get = lambda t: {"x1": float(t.get_choices()["x"][0]), "x2": float(t.get_choices()["x"][1])}
                    else:
                        tr, _ = t_aby.generate({"a": x["a"], "b": x["b"], "y": yv})
                        selection = sel("a") | sel("b") if len(S) == 2 else sel(S[0])
                        leaves = [(c, np.float32(eps[c])) for c in S]
                        get = lambda t: {"a": float(t.get_choices()["a"]), "b": float(t.get_choices()["b"])}
                    kfun = (lambda t: mcmc.mala(t, selection, tv)) if kern == "mala" else (lambda t: mcmc.hmc(t, selection, tv, steps))
                    # thresholds just below / above alpha pin down the acceptance probability actually applied
                    alpha = min(1.0, math.exp(lav))
                    trials = [("accept", alpha * 0.9, True)]
                    if alpha < 1.0:
                        trials.append(("reject", alpha + 0.1 * (1.0 - alpha) if alpha + 0.1 * (1.0 - alpha) > alpha * 1.02 else min(1.0, alpha * 1.1), False))
                    for tname, u, want_acc in trials:
                        NZ.q = [v for _, v in leaves]
                        NZ.log = []
                        TH.q = [u]
                        out, st = seed(state(lambda t_: kfun(t_)))(key, tr)   # fresh function object: staging is cached per function
                        got = get(out)
                        acc = bool(np.asarray(st["accept"]))
                        if acc != want_acc:
                            bad.append(f"{tname}: threshold u={u:.6g} vs exact alpha={alpha:.6g} gave accept={acc}")
                            continue
                        ref = xn if want_acc else x
                        for c in ref:
                            if abs(got[c] - ref[c]) > 2e-5:
                                bad.append(f"{tname}: coordinate {c} = {got[c]} expected {ref[c]}")
                        if not want_acc:
                            same = all(np.array_equal(np.asarray(a), np.asarray(b)) for a, b in zip(jax.tree.leaves(out), jax.tree.leaves(tr)))
                            if not same:
                                bad.append("rejected move did not return the input trace unchanged")
                        if NZ.q or TH.q:
                            bad.append(f"{tname}: scripted randomness not consumed (noise left {len(NZ.q)}, thresholds left {len(TH.q)})")
                        for (req, given), (c, v) in zip(NZ.log, leaves):
                            if tuple(req) != tuple(np.shape(v)):
                                bad.append(f"noise for address {c} was requested with shape {req}, the choice has shape {np.shape(v)}: "
                                           f"not one independent standard normal per coordinate")
                        # observed (unselected) addresses untouched
                        if float(np.max(np.abs(np.asarray(out.get_choices()["y"]) - (yv + ydelta)))) != 0.0:
                            bad.append("observed address y changed")
                except Exception as ex:
                    bad.append(f"raised {type(ex).__name__}: {str(ex).splitlines()[0][:160] if str(ex) else ''}")
                if bad:
                    chk.violation(ck, "; ".join(bad[:3]), {"case": ck})
            c = cases[0]
            chk.sample({"kernel": c[1], "target": c[2], "state": str(c[4]), "noise": str(c[7]), "tau": str(c[8]), "proposed": str(c[9]), "log_alpha": str(c[10])})
    finally:
        mcmc.normal, mcmc.uniform = saved
