"""C17 - the ELBO objective is unbiased, tight at the posterior, and ascended by VI."""
import math
from fractions import Fraction

import numpy as np

from .. import jaxcompat  # noqa: F401
import jax
import jax.numpy as jnp

from ..common import Check, MachineryError
from .. import tlc
from ..tlaval import printed_values
from genjax import gen, flip, normal, seed
from genjax.core import distribution
import genjax.adev as adev
from genjax.adev import Dual, flip_enum, flip_mvd, reinforce
from genjax.inference.vi import elbo_factory, optimize_vi, elbo_vi, mean_field_normal_family, full_covariance_normal_family
import genjax.distributions as D

LN2, LN3 = math.log(2.0), math.log(3.0)
Q = []


def fr(q):
    return Fraction(q[0], q[1])


def ring(v):
    return float(fr(v[0])) + float(fr(v[1])) * LN2 + float(fr(v[2])) * LN3


class _FlipDouble:
    def sample(self, p, **kw):
        return jnp.asarray(bool(Q.pop(0)))

    def logpdf(self, *a, **k):
        return D.flip.logpdf(*a, **k)


def _pop_flip(p):
    return jnp.asarray(bool(Q.pop(0)))


s_flip_rf = distribution(reinforce(_pop_flip, D.flip.logpdf, lambda key, p, sample_shape=(): jnp.asarray(p) > 2.0), D.flip.logpdf)


@gen
def bern_target():
    z = flip(0.5) @ "z"
    flip(jnp.where(z, 0.75, 0.25)) @ "x"


def bern_family(kind):
    prim = {"enum": distribution(flip_enum, D.flip.logpdf), "mvd": distribution(flip_mvd, D.flip.logpdf), "rf": s_flip_rf}[kind]

    @gen
    def fam(constraint, theta):
        prim(theta) @ "z"
    return fam


@gen
def gauss_target():
    z = normal(0.0, 1.0) @ "z"
    normal(z, math.sqrt(1.0 / 3.0)) @ "x"


class _ZeroNoise:
    """double for adev.multivariate_normal: eps == const (a constant is valid inside optimize_vi's scan, whose body is traced once)."""

    def __init__(self, eps=0.0):
        self.eps = eps
        self.calls = 0

    def sample(self, loc, cov, **kw):
        self.calls += 1
        return jnp.zeros_like(loc) + self.eps

    def logpdf(self, *a, **k):
        return D.multivariate_normal.logpdf(*a, **k)


@gen
def gauss_target_vec():
    z = D.multivariate_normal(jnp.zeros(1), jnp.eye(1)) @ "x"
    normal(z[0], math.sqrt(1.0 / 3.0)) @ "obs"


class _NormalScript:
    """double for adev.normal (the noise source of normal_reparam): returns the scripted standard-normal values in the SHAPE THE
    CODE ASKS FOR (one independent value per requested coordinate, as the real sampler would) and logs that shape."""

    def __init__(self, vals):
        self.vals = np.asarray(vals, dtype=np.float32).reshape(-1)
        self.shapes = []

    def sample(self, loc, scale, **kw):
        shape = tuple(jnp.broadcast_shapes(jnp.shape(loc), jnp.shape(scale)))
        n = int(np.prod(shape)) if shape else 1
        self.shapes.append(shape)
        return jnp.asarray(self.vals[:n]).reshape(shape) + 0.0 * (jnp.asarray(loc) + jnp.asarray(scale))

    def logpdf(self, *a, **k):
        return D.normal.logpdf(*a, **k)


nrep = adev.normal_reparam        # already a Distribution (usable with @ inside @gen)


@gen
def gauss_target2n():
    z = normal(jnp.zeros(2), 1.0) @ "x"
    normal(z[0] + 0.5 * z[1], math.sqrt(1.0 / 3.0)) @ "obs"


@gen
def shared_scale_family(constraint, params):
    """a reparameterised family with a VECTOR mean and ONE shared scalar scale"""
    nrep(params["m"], jnp.exp(params["log_s"])) @ "x"


@gen
def gauss_target2():
    z = D.multivariate_normal(jnp.zeros(2), jnp.eye(2)) @ "x"
    normal(z[0] + 0.5 * z[1], math.sqrt(1.0 / 3.0)) @ "obs"


def run(tier, argv):
    chk = Check("C17", tier)
    res = tlc.run("VI", "VI.cfg", workers=1, timeout=900)
    chk.add_tlc(res, "VI.cfg")
    bern = printed_values(res.stdout, '<<"BERN"') + printed_values(res.stdout, '<< "BERN"')
    loops = printed_values(res.stdout, '<<"LOOP"') + printed_values(res.stdout, '<< "LOOP"')
    tlc.cleanup(res)
    if len(bern) != 9 or len(loops) < 10:
        raise MachineryError(f"VI.tla printed {len(bern)} BERN / {len(loops)} LOOP cases")
    saved = (adev.flip, adev.multivariate_normal)
    try:
        # ---------------- Part 1: Bernoulli instance, every draw
        adev.flip = _FlipDouble()
        for (_, kind, th, table, elbo, grad) in bern:
            theta = float(fr(th))
            E = elbo_factory(bern_target, bern_family(kind), {"x": jnp.asarray(True)})
            for z in (True, False):
                ck = f"elbo-bern|{kind}|theta={fr(th)}|z={z}"
                chk.case(ck)
                chk.validated(1)
                row = table[z]
                want_p, want_t = ring(row["p"]), ring(row["t"])
                bad = []
                try:
                    Q[:] = [] if kind == "enum" else [z]
                    d = E.jvp_estimate(Dual(jnp.asarray(theta, dtype=jnp.float32), jnp.asarray(1.0, dtype=jnp.float32)))
                    if abs(float(d.primal) - want_p) > 2e-5 * (1 + abs(want_p)):
                        bad.append(f"objective value {float(d.primal)} expected {want_p}")
                    if abs(float(d.tangent) - want_t) > 5e-5 * (1 + abs(want_t)):
                        bad.append(f"gradient estimate {float(d.tangent)} expected {want_t}")
                    Q[:] = [] if kind == "enum" else [z]
                    g = E.grad_estimate(jnp.asarray(theta, dtype=jnp.float32))
                    if abs(float(g) - want_t) > 5e-5 * (1 + abs(want_t)):
                        bad.append(f"grad_estimate {float(g)} expected {want_t}")
                    Q[:] = [] if kind == "enum" else [z]
                    v = E.estimate(jnp.asarray(theta, dtype=jnp.float32))
                    if abs(float(v) - want_p) > 2e-5 * (1 + abs(want_p)):
                        bad.append(f"estimate {float(v)} expected {want_p}")
                    if kind != "enum" and fr(th) == Fraction(3, 4) and abs(float(v) - math.log(0.5)) > 2e-5:
                        bad.append(f"not tight at the posterior: draw z={z} gives {float(v)}, log p(x) = {math.log(0.5)}")
                    if Q:
                        bad.append("scripted draw not consumed")
                except Exception as ex:
                    bad.append(f"raised {type(ex).__name__}: {str(ex).splitlines()[0][:140] if str(ex) else ''}")
                if bad:
                    chk.violation(ck, "; ".join(bad[:3]), {"kind": kind, "theta": str(fr(th))})
        chk.sample({"part": "bernoulli", "kind": bern[0][1], "theta": str(fr(bern[0][2])), "exact_grad_ring": str(bern[0][5])})
        adev.flip = saved[0]
        # ---------------- Part 2: the loop of optimize_vi / elbo_vi with eps == 0 (exact rational iterates)
        ZN = _ZeroNoise(0.0)
        adev.multivariate_normal = ZN
        fam = mean_field_normal_family(1, "reparam")
        for (_, lr, y, n, hist) in loops:
            lrf, yf = float(fr(lr)), float(fr(y))
            want = np.asarray([[float(fr(p[0])), float(fr(p[1]))] for p in hist], dtype=np.float64)
            start = want[0] - np.asarray([lrf * (3 * yf - 4 * 0), lrf])  # placeholder, recomputed below
            # the start is not printed: invert the first step  mu1 = mu0 + lr (3y - 4 mu0),  l1 = l0 + lr
            mu0 = (want[0][0] - lrf * 3 * yf) / (1 - 4 * lrf) if abs(1 - 4 * lrf) > 1e-12 else None
            if mu0 is None:
                # lr = 1/4: mu1 = 3y/4 whatever the start; use the grid's starts
                cands = [0.5, 0.0]
            else:
                cands = [mu0]
            for m0 in cands:
                init = jnp.asarray([m0, want[0][1] - lrf], dtype=jnp.float32)
                for api in ("optimize_vi", "elbo_vi"):
                    ck = f"vi-loop|{api}|lr={fr(lr)}|y={fr(y)}|n={n}|mu0={m0}"
                    chk.case(ck)
                    chk.validated(1)
                    bad = []
                    try:
                        cons = {"obs": jnp.asarray(yf, dtype=jnp.float32)}
                        if api == "optimize_vi":
                            E = elbo_factory(gauss_target_vec, fam, cons)
                            out = optimize_vi(E, init, learning_rate=lrf, n_iterations=n)
                        else:
                            out = elbo_vi(gauss_target_vec, fam, init, cons, learning_rate=lrf, n_iterations=n)
                        ph = np.asarray(out.param_history, dtype=np.float64)
                        if ph.shape != want.shape:
                            bad.append(f"param_history shape {ph.shape} expected {want.shape}")
                        elif np.max(np.abs(ph - want)) > 2e-5:
                            j = int(np.argmax(np.max(np.abs(ph - want), axis=1)))
                            bad.append(f"param_history[{j}] = {ph[j].tolist()} expected {want[j].tolist()} (iterate after step {j + 1})")
                        if np.max(np.abs(np.asarray(out.final_params, dtype=np.float64) - want[-1])) > 2e-5:
                            bad.append(f"final_params {np.asarray(out.final_params).tolist()} expected the last iterate {want[-1].tolist()}")
                        if int(out.n_iterations.value) != n:
                            bad.append(f"n_iterations {out.n_iterations.value} expected {n}")
                    except Exception as ex:
                        bad.append(f"raised {type(ex).__name__}: {str(ex).splitlines()[0][:140] if str(ex) else ''}")
                    if bad:
                        chk.violation(ck, "; ".join(bad[:3]), {"lr": str(fr(lr)), "y": str(fr(y)), "n": n})
        chk.sample({"part": "loop", "lr": str(fr(loops[0][1])), "y": str(fr(loops[0][2])), "n": loops[0][3], "history": str(loops[0][4])})
        # ---------------- Part 3: tightness of the Gaussian instance for every draw; bound below the evidence elsewhere
        for yf in (1.0, 0.5):
            logev = -0.5 * math.log(2 * math.pi * (4.0 / 3.0)) - yf * yf / (2 * 4.0 / 3.0)
            cons = {"obs": jnp.asarray(yf, dtype=jnp.float32)}
            post = jnp.asarray([0.75 * yf, math.log(0.5)], dtype=jnp.float32)
            for fname, famx, params in (("mean_field", mean_field_normal_family(1, "reparam"), post),
                                        ("full_cov", full_covariance_normal_family(1, "reparam"),
                                         {"mean": jnp.asarray([0.75 * yf]), "chol_cov": jnp.asarray([[0.5]])})):
                E = elbo_factory(gauss_target_vec, famx, cons)
                for eps in (-2.0, -1.0, 0.0, 0.5, 1.0, 3.0):
                    ck = f"elbo-gauss-tight|{fname}|y={yf}|eps={eps}"
                    chk.case(ck)
                    chk.validated(1)
                    adev.multivariate_normal = _ZeroNoise(eps)
                    try:
                        v = float(E.estimate(params))
                        if abs(v - logev) > 5e-5:
                            chk.violation(ck, f"at the exact posterior the objective is {v} for noise {eps}, log p(x) = {logev}", {})
                    except Exception as ex:
                        chk.violation(ck, f"raised {type(ex).__name__}: {str(ex).splitlines()[0][:140] if str(ex) else ''}", {})
            # a 2-d target with a NON-diagonal Cholesky factor: the draw must be mean + L eps and the objective log p(y, z) - log q(z)
            if yf == 1.0:
                L = np.array([[0.8, 0.0], [0.3, 0.6]])
                mean = np.array([0.2, -0.4])
                fam2 = full_covariance_normal_family(2, "reparam")
                E2 = elbo_factory(gauss_target2, fam2, cons)
                for eps2 in ((0.0, 0.0), (1.0, -0.5), (-1.5, 2.0), (0.5, 0.5)):
                    ck = f"elbo-gauss-2d|eps={eps2}"
                    chk.case(ck)
                    chk.validated(1)
                    adev.multivariate_normal = _ZeroNoise(np.asarray(eps2, dtype=np.float32))
                    z = mean + L @ np.asarray(eps2)
                    logp = -0.5 * float(z @ z) - math.log(2 * math.pi) + (-0.5 * math.log(2 * math.pi / 3.0) - 1.5 * (yf - z[0] - 0.5 * z[1]) ** 2)
                    logq = -0.5 * float(np.dot(eps2, eps2)) - math.log(0.8 * 0.6) - math.log(2 * math.pi)
                    try:
                        v = float(E2.estimate({"mean": jnp.asarray(mean, dtype=jnp.float32), "chol_cov": jnp.asarray(L, dtype=jnp.float32)}))
                        if abs(v - (logp - logq)) > 2e-4:
                            chk.violation(ck, f"objective {v} for noise {eps2}, expected log p(y, mean + L eps) - log q = {logp - logq}", {})
                    except Exception as ex:
                        chk.violation(ck, f"raised {type(ex).__name__}: {str(ex).splitlines()[0][:140] if str(ex) else ''}", {})
            # normal_reparam with a vector mean and one shared scalar scale on a target that couples the coordinates: one
            # independent noise value per coordinate, objective = log p(y, m + s eps) - log q(m + s eps)
            if yf == 1.0:
                mvec, sc = np.array([0.2, -0.4]), 0.7
                E3 = elbo_factory(gauss_target2n, shared_scale_family, cons)
                saved_normal = adev.normal
                try:
                    for eps2 in ((0.0, 0.0), (1.0, -0.5), (-1.5, 2.0), (0.5, 0.25)):
                        ck = f"elbo-gauss-shared-scale|eps={eps2}"
                        chk.case(ck)
                        chk.validated(1)
                        dbl = _NormalScript(eps2)
                        adev.normal = dbl
                        z = mvec + sc * np.asarray(eps2)
                        logp = -0.5 * float(z @ z) - math.log(2 * math.pi) + (-0.5 * math.log(2 * math.pi / 3.0) - 1.5 * (yf - z[0] - 0.5 * z[1]) ** 2)
                        logq = -0.5 * float(np.dot(eps2, eps2)) - 2 * math.log(sc) - math.log(2 * math.pi)
                        try:
                            pr = {"m": jnp.asarray(mvec, dtype=jnp.float32), "log_s": jnp.asarray(math.log(sc), dtype=jnp.float32)}
                            v = float(E3.estimate(pr))
                            bad = []
                            if abs(v - (logp - logq)) > 2e-4:
                                bad.append(f"objective {v} for noise {eps2}, expected log p(y, m + s eps) - log q = {logp - logq}")
                            if dbl.shapes and any(sh != (2,) for sh in dbl.shapes):
                                bad.append(f"noise was requested with shape(s) {dbl.shapes}: not one independent standard normal per coordinate")
                            if bad:
                                chk.violation(ck, "; ".join(bad), {})
                        except Exception as ex:
                            chk.violation(ck, f"raised {type(ex).__name__}: {str(ex).splitlines()[0][:140] if str(ex) else ''}", {})
                finally:
                    adev.normal = saved_normal
            # away from the posterior the expectation lies below log p(x): seeded mean over real noise
            adev.multivariate_normal = saved[1]
            E = elbo_factory(gauss_target_vec, mean_field_normal_family(1, "reparam"), cons)
            off = jnp.asarray([0.75 * yf + 0.5, math.log(0.8)], dtype=jnp.float32)
            vals = np.asarray(jax.jit(jax.vmap(lambda k: seed(E.estimate)(k, off)))(jax.random.split(jax.random.key(chk.seed + 3), 4000)))
            ck = f"elbo-gauss-bound|y={yf}"
            chk.case(ck)
            kl = math.log(0.5 / 0.8) + (0.64 + 0.25) / (2 * 0.25) - 0.5
            if abs(float(np.mean(vals)) - (logev - kl)) > 6.5 * float(np.std(vals)) / math.sqrt(len(vals)) + 1e-4:
                chk.violation(ck, f"E_q[objective] = {float(np.mean(vals))} expected log p(x) - KL = {logev - kl}", {})
    finally:
        adev.flip, adev.multivariate_normal = saved
        Q[:] = []
    chk.cov["rule"] = ("VI.tla part 1: every (family primitive in {flip_enum, flip_mvd, REINFORCE(flip)}, theta in {1/4,1/2,3/4}, draw) of the "
                       "Bernoulli/Bernoulli instance - objective value, gradient estimate, tightness at the posterior, exact in Q[ln2, ln3]; "
                       "part 2: every (learning rate, observation, start, n <= 5) of the Gaussian loop with zero noise - param_history, "
                       "final_params, n_iterations of optimize_vi and elbo_vi equal the exact rational iterates; part 3: tightness of the Gaussian "
                       "instance for scripted noises (mean-field and full-covariance families), E_q below log p(x) by the KL away from it")
    chk.assumptions.append("part 3 compares float32 results with closed-form float64 values (tolerance 5e-5); the bound check is a 6.5 s.e. mean screen")
    return chk.finish()
