"""C14 - unseeded sampling can never be compiled into a fixed-randomness program.

TLC (specs/Lowering.tla) enumerates every placement (stack of JAX contexts around one sampling site, with/without
batched parameters) with the Contract outcome; every placement is built as real JAX code, executed, and its outcome
class (dedicated lowering error / other error / value that is a function of the key / fresh eager value / replicated
lanes / fixed or hidden randomness) compared with the Contract.
"""
import os
import random
import multiprocessing as mp

from ..common import Check, MachineryError
from .. import tlc


def _classify(job):
    stack, batched, seed_ = job
    from .. import jaxcompat  # noqa: F401
    import jax
    import jax.numpy as jnp
    import numpy as np
    from genjax import normal, seed, modular_vmap
    from genjax.pjax import LoweringSamplePrimitiveToMLIRException

    def site(key, x):
        if batched:
            return normal.sample(x, 1.0) - x
        return normal.sample(0.0, 1.0) + 0.0 * x

    def zeros_like_out(g, k, x):
        # the wrapped function may return lanes (a vmap further in): accumulators / other branches take its shape
        # (abstract evaluation only: nothing is sampled or compiled)
        try:
            return jnp.zeros(jax.eval_shape(g, k, x).shape)
        except Exception:
            return jnp.zeros(())

    def wrap(ctx, g):
        if ctx == "jit":
            return jax.jit(g)
        if ctx == "scan":
            return lambda k, x: jax.lax.scan(lambda c, _: (c + g(k, x), None), zeros_like_out(g, k, x), None, length=2)[0]
        if ctx == "while":
            return lambda k, x: jax.lax.while_loop(lambda c: c[0] < 2, lambda c: (c[0] + 1, c[1] + g(k, x)), (0, zeros_like_out(g, k, x)))[1]
        if ctx == "fori_static":
            return lambda k, x: jax.lax.fori_loop(0, 2, lambda i, c: c + g(k, x), zeros_like_out(g, k, x))
        if ctx == "fori_dynamic":
            return lambda k, x: jax.lax.fori_loop(0, jnp.asarray(x * 0 + 2, jnp.int32), lambda i, c: c + g(k, x), zeros_like_out(g, k, x))
        if ctx == "cond":
            return lambda k, x: jax.lax.cond(jnp.asarray(True), lambda y: g(k, y), lambda y: 0.0 * y + zeros_like_out(g, k, x), x)
        if ctx == "switch":
            return lambda k, x: jax.lax.switch(0, [lambda y: g(k, y), lambda y: 0.0 * y + zeros_like_out(g, k, x)], x)
        if ctx == "grad":
            return lambda k, x: jax.grad(lambda y: g(k, y) * y)(x + 1.0) - 0.0
        if ctx == "remat":
            return lambda k, x: jax.checkpoint(lambda y: g(k, y))(x)
        if ctx == "custom_jvp":
            def mk(k):
                @jax.custom_jvp
                def cj(y):
                    return g(k, y)
                cj.defjvp(lambda p, t: (cj(*p), t[0] * 0.0))
                return cj
            return lambda k, x: mk(k)(x)
        if ctx == "modular_vmap":
            return lambda k, x: jnp.sum(modular_vmap(lambda y: g(k, y), in_axes=0)(jnp.stack([x, x])) * jnp.array([1.0, 3.0]))
        if ctx == "vmap":
            def v(k, x):
                ks = jnp.stack([k, jax.random.fold_in(k, 1)]) if k is not None else None
                lanes = jax.vmap(g, in_axes=(0 if k is not None else None, 0))(ks, jnp.stack([x, x]))
                return lanes
            return v
        if ctx == "seed":
            return lambda k, x: seed(lambda y: g(k, y))(k, x)
        raise ValueError(ctx)

    g = site
    for ctx in reversed(stack):
        g = wrap(ctx, g)
    has_seed = "seed" in stack
    x = jnp.asarray(0.5)
    # history: the same stack of constructs around site-FREE code has been run before (as ordinary programs do all the time,
    # e.g. jax.nn.relu is a custom_jvp call). The outcome for the placement must not depend on it.
    try:
        twin = lambda key, y: 2.0 * y + 1.0
        for ctx in reversed(stack):
            twin = wrap(ctx, twin)
        twin(jax.random.key(3) if has_seed else None, x)
    except Exception:
        pass

    def call(k):
        # keys are only threaded when some seed consumes them (vmap over keys needs real keys)
        return np.asarray(g(k if has_seed else None, x))

    k1, k2 = jax.random.key(10 + seed_), jax.random.key(20 + seed_)
    try:
        a = call(k1)
        b = call(k1)
        c = call(k2)
    except LoweringSamplePrimitiveToMLIRException:
        return "lowering", ""
    except Exception as ex:  # noqa
        return "error", f"{type(ex).__name__}: {str(ex).splitlines()[0][:100] if str(ex) else ''}"
    if a.ndim >= 1 and a.shape[-1 if a.ndim == 1 else 0] == 2 or a.size == 2:
        lanes = a.reshape(-1)
        if lanes.size == 2 and lanes[0] == lanes[1]:
            return "replicated", f"lanes {lanes.tolist()}"
    same_key_equal = np.array_equal(a, b)
    other_key_equal = np.array_equal(a, c)
    if has_seed:
        if same_key_equal and not other_key_equal:
            return "keyed", ""
        if not same_key_equal:
            return "hidden", "same key, different results"
        return "fixed", "result does not depend on the key"
    if same_key_equal:
        return "fixed", "two eager unseeded calls returned identical draws"
    return "eager", ""


def run(tier, argv):
    chk = Check("C14", tier)
    cfg = "Lowering_q.cfg" if tier == "quick" else "Lowering_t.cfg"
    res = tlc.run("Lowering", cfg, workers=16, timeout=900)
    chk.add_tlc(res, cfg)
    table = tlc.load_json(res, "lowering.json")
    tlc.cleanup(res)
    for c, inv in (("Lowering_known.cfg", "ReplicationDefect"), ("Lowering_prefix.cfg", "NeverHiddenOld")):
        r = tlc.run("Lowering", c, workers=2, allow_violation=True, timeout=300)
        if r.invariant_violated != inv:
            raise MachineryError(f"vacuity guard: {inv} not refuted by TLC")
        tlc.cleanup(r)
    chk.cov["binding_demo"].append("TLC refutes NeverHiddenOld (pre-repair fall-through) and ReplicationDefect (vmap over an unbatched site): "
                                   "the invariants are not vacuous")
    rng = random.Random(chk.seed)
    rows = sorted(table, key=lambda r: (len(r["st"]), r["st"], r["batched"]))
    if tier != "quick":
        small = [r for r in rows if len(r["st"]) <= 2]
        big = [r for r in rows if len(r["st"]) == 3]
        rows = small + rng.sample(big, min(len(big), 1500))
    jobs = [(r["st"], r["batched"], chk.seed) for r in rows]
    ctx = mp.get_context("spawn")
    with ctx.Pool(int(os.environ.get("GX_PROCS", "12"))) as pool:
        outs = pool.map(_classify, jobs, chunksize=8)
    fams = {}
    for r, (got, note) in zip(rows, outs):
        stack = ">".join(r["st"]) or "(bare)"
        key = f"placement|{stack}|batched={r['batched']}"
        chk.case(key)
        chk.validated(1)
        want = r["outcome"]
        ok = got == want or (want == "error" and got in ("error", "lowering"))
        # modular_vmap re-binds uninterpreted equations (jit, while, remat, custom_jvp, ...) through jax.vmap, whose batching rule
        # then refuses the batched site: an error raised before anything is compiled is safe for this property
        if not ok and got == "error" and "modular_vmap" in r["st"] and r["batched"] and "Only modular_vmap context supported" in note:
            ok = True
        if not ok and "Reverse-mode differentiation does not work" in note:
            ok = True      # JAX refuses to differentiate the loop at all: nothing was compiled
        if not ok and r["family"] != "none":
            fams.setdefault(r["family"], []).append(f"{stack}|batched={r['batched']}|got={got}")
            continue
        if not ok:
            chk.violation(key + f"|got={got}", f"placement {stack} (batched={r['batched']}): observed '{got}' {note}, the property demands '{want}'",
                          {"stack": r["st"], "batched": r["batched"], "observed": got, "contract": want, "impl_model": r["impl"]})
        elif got != r["impl"] and not (r["impl"] in ("error", "lowering") and got in ("error", "lowering")):
            chk.divergence(f"{stack} batched={r['batched']}: Impl model says {r['impl']}, code gives {got}")
    for fam, L in sorted(fams.items()):
        # known findings are identified by the pjax.py rule through which they happen (Lowering.tla: Family)
        if not chk.violation(f"family={fam}", f"{len(L)} placements deviate through {fam}, e.g. {L[:4]}", {"placements": L}):
            chk.cov.setdefault("known_family_placements", {})[fam] = len(L)
    chk.sample({"placement": rows[len(rows) // 2]["st"], "batched": rows[len(rows) // 2]["batched"], "contract": rows[len(rows) // 2]["outcome"]})
    chk.cov["rule"] = ("every stack of <= Depth contexts from {jit, scan, while, fori_static, fori_dynamic, cond, switch, grad, vmap, modular_vmap, "
                       "remat, custom_jvp, seed} around one site, with and without batched parameters, enumerated by TLC with the Contract outcome; "
                       "each built and run as real JAX code (2 calls with one key, 1 with another)")
    chk.cov["exhaustive"] = tier == "quick"
    return chk.finish()
