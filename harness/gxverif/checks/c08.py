"""C08 - modular_vmap and Vmap are lane-wise maps, for densities and for sampling."""
import numpy as np

from .. import jaxcompat  # noqa: F401
import jax
import jax.numpy as jnp

from ..common import Check, MachineryError
from .. import tlc, gficheck
from genjax.pjax import wrap_sampler, wrap_logpdf, modular_vmap, seed


def _echo(key, p, sample_shape=()):
    return jnp.broadcast_to(p, tuple(sample_shape) + jnp.shape(p))


def _echo2(key, p, q, sample_shape=()):
    v = p + 10 * q
    return jnp.broadcast_to(v, tuple(sample_shape) + jnp.shape(v))


echo = wrap_sampler(_echo, name="echo")
echo2 = wrap_sampler(_echo2, name="echo2")
dens = wrap_logpdf(lambda v, x: jnp.where((x + v) % 2 == 0, 1, 2))


def _bits(key, p, sample_shape=()):
    return jax.random.bits(key, tuple(sample_shape) + jnp.shape(p), dtype=jnp.uint32)


bits_like = wrap_sampler(_bits, name="bits_like")


def mk(case):
    f, ss = case["f"], case["ss"]
    if f == "echo":
        return lambda x: echo(x, sample_shape=(ss,) if ss else ())
    if f == "echo2":
        return lambda x, y: echo2(x, y)
    if f == "dens":
        return lambda v, x: dens(v, x)
    if f == "det":
        return lambda x, y: 2 * x + y
    raise ValueError(f)


def run(tier, argv):
    chk = Check("C08", tier)
    cases = []
    for cfg in ("ModularVmap_32.cfg", "ModularVmap_22.cfg"):
        res = tlc.run("ModularVmap", cfg, workers=2, timeout=300)
        chk.add_tlc(res, cfg)
        cases += [(cfg, c) for c in tlc.load_json(res, "mvmap.json")]
        tlc.cleanup(res)
    r = tlc.run("ModularVmap", "ModularVmap_prefix.cfg", workers=1, allow_violation=True, timeout=300)
    if r.invariant_violated != "RuleOldOK":
        raise MachineryError("vacuity guard: the pre-repair batching rule model is no longer refuted")
    tlc.cleanup(r)
    chk.cov["binding_demo"].append("TLC refutes RuleOldOK (parameters handed to the sampler as they are, axis 0 declared)")
    key = jax.random.key(chk.seed + 5)
    for cfg, c in cases:
        axes = tuple(None if a == "none" else int(a) for a in c["axes"])
        args = [jnp.asarray(a, dtype=jnp.int32) for a in c["args"]]
        L = int(cfg.split("_")[1][0])
        f = mk(c)
        want = np.asarray(c["expect"])
        kw = {"axis_size": L} if all(a is None for a in axes) else {}
        variants = {
            "eager": lambda: modular_vmap(f, in_axes=axes, **kw)(*args),
            "seed": lambda: seed(modular_vmap(f, in_axes=axes, **kw))(key, *args),
            "jit": lambda: jax.jit(seed(modular_vmap(f, in_axes=axes, **kw)))(key, *args),
            "axis_size": lambda: seed(modular_vmap(f, in_axes=axes, axis_size=L))(key, *args),
        }
        if len(args) == 2:
            variants["dict-pytree"] = lambda: seed(modular_vmap(lambda d: f(d["a"], d["b"]), in_axes=({"a": axes[0], "b": axes[1]},), **kw))(
                key, {"a": args[0], "b": args[1]})
        if c["f"] == "echo" and kw and c["ss"] == 0:
            # the same site vectorised twice: an inner modular_vmap over the (outer-unbatched) vector, inside the outer map
            variants["nested-inner(axis_size)"] = lambda: seed(modular_vmap(lambda x: modular_vmap(lambda m: echo(m), in_axes=0)(x), in_axes=None, axis_size=L))(key, *args)
            variants["nested-inner(in_axes=0)"] = lambda: seed(modular_vmap(lambda _, x=args[0]: modular_vmap(lambda m: echo(m), in_axes=0)(x), in_axes=0))(key, jnp.zeros(L))
        if c["f"] in ("det", "dens") and not kw:
            variants["nested"] = None
        for vname, thunk in variants.items():
            if thunk is None:
                continue
            ck = f"mvmap|{c['f']}|ss={c['ss']}|axes={c['axes']}|L={L}|{vname}"
            chk.case(ck)
            chk.validated(1)
            try:
                got = np.asarray(thunk())
                if got.shape != want.shape or not np.array_equal(got, want):
                    chk.violation(ck, f"modular_vmap result {got.tolist()} (shape {got.shape}) is not the lane-wise stack {want.tolist()} (shape {want.shape})",
                                  {"case": c})
            except Exception as ex:
                chk.violation(ck, f"raised {type(ex).__name__}: {str(ex).splitlines()[0][:160] if str(ex) else ''}", {"case": c})
        # the oracle the property names: jax.vmap on the deterministic / density-only functions
        if c["f"] == "det":
            ref = np.asarray(jax.vmap(f, in_axes=axes)(*args))
            if not np.array_equal(ref, want):
                raise MachineryError(f"spec LaneWise disagrees with jax.vmap on a deterministic function: {c}")
        # independence: a genuine sampler under the same axes draws distinct bits per lane (never one draw broadcast)
        if c["f"] == "echo":
            ck = f"mvmap-lanes-independent|ss={c['ss']}|axes={c['axes']}|L={L}"
            chk.case(ck)
            try:
                g = lambda x: bits_like(x, sample_shape=(c["ss"],) if c["ss"] else ())
                out = np.asarray(seed(modular_vmap(g, in_axes=axes, **kw))(key, *args))
                lanes = [out[i].tobytes() for i in range(out.shape[0])]
                if out.shape != want.shape:
                    chk.violation(ck, f"sampled shape {out.shape}, lane-wise shape {want.shape}", {"case": c})
                elif len(set(lanes)) != len(lanes) or len(np.unique(out)) != out.size:
                    chk.violation(ck, "lanes share random bits (one draw broadcast)", {"case": c, "out": out.tolist()})
            except Exception as ex:
                chk.violation(ck, f"raised {type(ex).__name__}: {str(ex).splitlines()[0][:160] if str(ex) else ''}", {"case": c})
    # scans (forward and reverse) and cond inside the mapped function: lane-wise reference = the function applied to each slice
    def scan_fn(reverse):
        def f(x):
            def body(c, t):
                v = echo(c * 2 + t)
                return v + 1, v
            return jax.lax.scan(body, x, jnp.arange(3, dtype=jnp.int32), reverse=reverse)
        return f
    def cond_fn(x):
        return jax.lax.cond(x % 2 == 0, lambda y: echo(y * 3), lambda y: echo(y + 100), x)
    xs = jnp.asarray([1, 4, 7], dtype=jnp.int32)
    for fname, f in (("scan-forward", scan_fn(False)), ("scan-reverse", scan_fn(True)), ("cond", cond_fn)):
        ck = f"mvmap-control-flow|{fname}"
        chk.case(ck)
        chk.validated(1)
        try:
            ref = [jax.tree.map(np.asarray, seed(f)(key, xs[i])) for i in range(3)]
            want = jax.tree.map(lambda *a: np.stack(a), *ref)
            for vname, g in (("seed", seed(modular_vmap(f, in_axes=0))), ("jit", jax.jit(seed(modular_vmap(f, in_axes=0))))):
                got = jax.tree.map(np.asarray, g(key, xs))
                if not all(np.array_equal(a, b) for a, b in zip(jax.tree.leaves(got), jax.tree.leaves(want))):
                    chk.violation(ck + "|" + vname, f"modular_vmap over a function with {fname} is not the stack of the per-slice results: "
                                  f"{[a.tolist() for a in jax.tree.leaves(got)]} vs {[a.tolist() for a in jax.tree.leaves(want)]}", {})
        except Exception as ex:
            chk.violation(ck, f"raised {type(ex).__name__}: {str(ex).splitlines()[0][:160] if str(ex) else ''}", {})
    chk.sample({"case": cases[2][1]})
    # ---- the Vmap combinator / repeat through the GFI specification: lane i of the vectorised trace is a coherent
    #      trace of the callee on lane i's arguments; densities, weights and return values are the per-lane sums/stacks
    inv = ["Coherent", "SimulateOK", "GenerateOK", "UpdateOK", "RegenerateOK"]
    allops = ["simulate", "generate", "update", "regenerate"]
    sur = ["simulate", "update", "regenerate"]
    # (tag, programs, operation kinds, operations per behaviour, constrained addresses, new arguments on update)
    if tier == "quick":
        plans = [("a", ["vd"], allops, 2, 2, "all"), ("b", ["fr", "vf"], sur, 2, 1, "same"),
                 ("c", ["fvc", "frk", "fvi", "fcv"], ["simulate", "generate"], 1, 2, "all"), ("d", ["fvc", "frk", "fvi"], sur, 2, 1, "all"), ("e", ["fve", "fvcb"], sur, 2, 1, "same")]
    else:
        plans = [("a", ["vd", "fr"], allops, 2, 2, "all"), ("b", ["vf", "fv"], allops, 2, 1, "same"), ("c", ["fvf"], sur, 2, 1, "same"),
                 ("d", ["fvc", "frk", "fvi", "fcv"], ["simulate", "generate"], 1, 2, "all"), ("e", ["fvc", "frk", "fvi", "fcv"], sur, 2, 1, "all"), ("f", ["fe", "fve"], allops, 2, 1, "same")]
    for tag, progs, ops, nops, maxc, ua in plans:
        cfg = gficheck.write_cfg(f"C08_{tier}_{tag}.cfg", progs, nops, ops, maxc, ua, inv, sim_scripts="few")
        info = gficheck.run_config(chk, cfg, set(ops), variant="eager", max_replay=350 if tier == "quick" else 6000,
                                   label=f"C08_{tier}_{tag}/Vmap-combinator", timeout=3400)
        chk.cov.setdefault("replay", []).append({"plan": tag, **info})
    chk.cov["rule"] = ("modular_vmap: the TLC-exported cases (echo / echo2 / density / deterministic sites x in_axes in {0, 1, None, tuples, dict "
                       "pytrees} x sample_shape x lanes 2|3) run eagerly, seeded, jit-compiled, with explicit axis_size; Vmap combinator: every "
                       "behaviour of GFI.tla over the vectorised programs (simulate/generate/update/regenerate)")
    return chk.finish()
