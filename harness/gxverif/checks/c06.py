"""C06 - a seeded function is a pure, transform-stable function of key and arguments."""
from ..common import Check
from .. import seedcheck


def run(tier, argv):
    chk = Check("C06", tier)
    seedcheck.run(chk, tier, "C06")
    return chk.finish()
