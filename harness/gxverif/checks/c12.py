"""C12 - resampling copies particles faithfully, preserves the estimate, and is unbiased."""
import json
import math
import os

import numpy as np

from .. import jaxcompat  # noqa: F401
import jax
import jax.numpy as jnp

from ..common import Check, MachineryError
from .. import tlc
from ..tlaval import printed_values
from genjax import gen, normal, seed, const
from genjax.pjax import wrap_sampler, modular_vmap
import genjax.inference.smc as smc
import genjax.distributions as D


@gen
def pmodel(a):
    x = normal(a, 1.0) @ "x"
    y = normal(x, 2.0) @ "y"
    return x + 2.0 * y


class _Scripted:
    """double for a module-level distribution of smc.py: pops one scripted value per .sample call through a real sample site."""

    def __init__(self, real, dtype):
        self.real, self.dtype, self.q, self.calls = real, dtype, [], 0
        self._s = wrap_sampler(lambda key, v, sample_shape=(): jnp.asarray(v), name="scripted")

    def sample(self, *a, **kw):
        self.calls += 1
        v = jnp.asarray(self.q.pop(0), dtype=self.dtype)
        if self.real is D.uniform and len(a) >= 2:
            # the script is the standard-uniform quantile of the draw: the bounds the code asks for matter
            lo, hi = jnp.asarray(a[0], dtype=self.dtype), jnp.asarray(a[1], dtype=self.dtype)
            v = lo + (hi - lo) * v
        return self._s(v)

    def logpdf(self, *a, **k):
        return self.real.logpdf(*a, **k)


def make_particles(W):
    n = len(W)
    ids = jnp.arange(1, n + 1, dtype=jnp.float32)
    cons = {"x": 10.0 + ids, "y": 20.0 + ids}
    traces, _ = modular_vmap(pmodel.generate, in_axes=(0, 0))(cons, 100.0 + ids)
    lw = jnp.asarray([math.log(w) if w > 0 else -np.inf for w in W], dtype=jnp.float32)
    return smc.ParticleCollection(traces=traces, log_weights=lw, diagnostic_weights=jnp.zeros(n), n_samples=const(n),
                                  log_marginal_estimate=jnp.asarray(math.log(0.75), dtype=jnp.float32))


def check_copy(before, after, anc):
    """every leaf of the resampled trace must be the same index vector applied to the input leaf."""
    lb, la = jax.tree.leaves(before.traces), jax.tree.leaves(after.traces)
    idx = np.asarray(anc) - 1
    for b, a in zip(lb, la):
        b, a = np.asarray(b), np.asarray(a)
        if b.ndim == 0 or b.shape[0] != len(idx):
            continue
        if not np.array_equal(a, b[idx]):
            return False
    return True


def _run_cases(job):
    """replays a chunk of cases on the real resample(); returns [(case key, [mismatches], detail)]."""
    cases, seed_ = job
    U, C = _Scripted(D.uniform, jnp.float32), _Scripted(D.categorical, jnp.int32)
    saved = (smc.uniform, smc.categorical)
    smc.uniform, smc.categorical = U, C
    key = jax.random.key(seed_)
    results = []
    try:
        for (_, method, W, k, anc) in cases:
            W = list(W)
            n = len(W)
            wtot = sum(W)
            ck = f"resample|{method}|W={W}|" + (f"k={k}" if method == "systematic" else f"anc={list(anc)}")
            pc = make_particles(W)
            if method == "systematic":
                U.q = [(2 * k + 1) / (2.0 * wtot)]
            else:
                C.q = [[a - 1 for a in anc]]
            bad = []
            try:
                out = seed(lambda p: smc.resample(p, method))(key, pc)
                got = (np.asarray(out.traces.get_choices()["x"]) - 10.0).round().astype(int).tolist()
                if got != list(anc):
                    bad.append(f"ancestors {got} expected {list(anc)}")
                if not check_copy(pc, out, got):
                    bad.append("a particle was not copied from ONE source index (trace leaves indexed differently)")
                if int(out.n_samples.value) != n or np.asarray(out.log_weights).shape != (n,):
                    bad.append("particle count changed")
                if not np.array_equal(np.asarray(out.log_weights), np.zeros(n, dtype=np.float32)):
                    bad.append(f"log weights not reset to 0: {np.asarray(out.log_weights).tolist()}")
                lml0, lml1 = float(pc.log_marginal_likelihood()), float(out.log_marginal_likelihood())
                if abs(lml0 - lml1) > 1e-5 or abs(lml1 - math.log(0.75 * wtot / n)) > 1e-5:
                    bad.append(f"log_marginal_likelihood changed: {lml0} -> {lml1} (exact {math.log(0.75 * wtot / n)})")
                dw = np.exp(np.asarray(out.diagnostic_weights))
                if not np.allclose(dw, np.asarray(W) / wtot, atol=1e-6):
                    bad.append(f"diagnostic weights {dw.tolist()} are not the normalised pre-resampling weights")
                if (U.q or C.q) or (U.calls + C.calls) == 0:
                    bad.append("the method did not draw its randomness as specified (offset / ancestor vector not consumed)")
            except Exception as ex:
                bad.append(f"raised {type(ex).__name__}: {str(ex).splitlines()[0][:160] if str(ex) else ''}")
            U.q, C.q, U.calls, C.calls = [], [], 0, 0
            results.append((ck, bad, {"W": W, "method": method, "k": k, "anc": list(anc)}))
    finally:
        smc.uniform, smc.categorical = saved
    return results


def run(tier, argv):
    chk = Check("C12", tier)
    cfgs = ["Resample_2.cfg", "Resample_3.cfg"] + (["Resample_4.cfg"] if tier == "quick" else ["Resample_4.cfg", "Resample_5.cfg"])
    cases = []
    for cfg in cfgs:
        res = tlc.run("Resample", cfg, workers=1, timeout=3000)
        chk.add_tlc(res, cfg)
        cs = printed_values(res.stdout, '<<"CASE"') + printed_values(res.stdout, '<< "CASE"')
        tlc.cleanup(res)
        if cfg in ("Resample_4.cfg", "Resample_5.cfg"):
            # categorical ancestor vectors are numerous: keep all systematic cases and a seeded sample of categorical ones
            import random
            rng = random.Random(chk.seed)
            sysc = [c for c in cs if c[1] == "systematic"]
            cat = [c for c in cs if c[1] == "categorical"]
            if tier != "quick" and len(sysc) > 1200:
                sysc = rng.sample(sysc, 1200)         # one process cannot run many thousands of cases (see DESIGN 8.4: mapped memory)
            cs = sysc + rng.sample(cat, min(len(cat), 300 if tier == "quick" else 500))
            chk.cov["exhaustive"] = False
        cases += cs
    # the replay runs in short-lived worker processes (400 cases each): a process that stages and evaluates many thousands of
    # functions eagerly eventually dies inside LLVM's JIT ("Unable to allocate section memory")
    import multiprocessing as mp
    chunks = [cases[i:i + 400] for i in range(0, len(cases), 400)]
    if len(chunks) <= 1:
        outs = [_run_cases((cases, chk.seed))]
    else:
        with mp.get_context("spawn").Pool(min(4, len(chunks)), maxtasksperchild=1) as pool:
            outs = pool.map(_run_cases, [(ch, chk.seed) for ch in chunks], chunksize=1)
    for res_ in outs:
        for ck, bad, detail in res_:
            chk.case(ck)
            chk.validated(1)
            if bad:
                chk.violation(ck, "; ".join(bad[:3]), detail)
    c = cases[len(cases) // 3]
    chk.sample({"method": c[1], "weights": list(c[2]), "offset_interval": c[3], "ancestors": list(c[4])})

    # ---- direction (B): real randomness, recorded and validated by TLC (ResampleTrace.tla) ---------------------------
    import random
    rng = random.Random(chk.seed + 1)
    events = []
    n_ev = 150 if tier == "quick" else 800
    jitted = {}
    counts = {}
    for i in range(n_ev):
        n = rng.choice([2, 3, 4, 5])
        W = [rng.randint(0, 3) for _ in range(n)]
        if sum(W) == 0:
            W[rng.randrange(n)] = 1
        method = rng.choice(["systematic", "categorical"])
        pc = make_particles(W)
        if i % 2:
            f = jitted.setdefault((method, n), jax.jit(seed(lambda p, m=method: smc.resample(p, m))))
        else:
            f = seed(lambda p: smc.resample(p, method))
        out = f(jax.random.key(chk.seed * 7919 + i), pc)
        anc = (np.asarray(out.traces.get_choices()["x"]) - 10.0).round().astype(int).tolist()
        events.append({"method": method, "W": W, "anc": anc, "copied": bool(check_copy(pc, out, anc)),
                       "lw_zero": bool(np.all(np.asarray(out.log_weights) == 0.0)),
                       "lml_same": bool(abs(float(pc.log_marginal_likelihood()) - float(out.log_marginal_likelihood())) < 1e-5)})
    rej = _validate(chk, events, "real")
    chk.validated(len(events) - len(rej))
    for i, cl in rej.items():
        e = events[i - 1]
        chk.violation(f"trace|{e['method']}|W={e['W']}|anc={e['anc']}|clauses={','.join(cl)}", f"recorded resample rejected by ResampleTrace: {cl}", e)
    demo = [dict(e) for e in events[:8]]
    sysd = [j for j, e in enumerate(demo) if e["method"] == "systematic" and len(set(e["anc"])) > 1]
    if sysd:
        demo[sysd[0]]["anc"] = list(reversed(demo[sysd[0]]["anc"]))
        r2 = _validate(None, demo, "demo")
        if (sysd[0] + 1) not in r2:
            raise MachineryError("binding demo failed: a reversed systematic ancestor vector was accepted")
        chk.cov["binding_demo"].append(f"reversing a recorded systematic ancestor vector makes ResampleTrace reject event {sysd[0] + 1}")
    chk.cov["rule"] = ("every weight vector in [0..MaxW]^N (not all zero; zeros model -inf), N in 2..4(5), both methods; systematic: every offset "
                       "interval (midpoints), categorical: every ancestor vector (sampled for N >= 4); TLC checks floor/ceil counts, exact "
                       "expected counts for both methods, estimate preservation; each case replayed on the real resample() with scripted offset / "
                       "ancestors, every trace leaf cross-checked against one source index; real-randomness runs validated by TLC")
    return chk.finish()


def _validate(chk, events, tag):
    d = os.path.join(tlc.OUT, f"restrace_{tag}_{os.getpid()}")
    os.makedirs(d, exist_ok=True)
    f = os.path.join(d, "events.json")
    with open(f, "w") as fh:
        json.dump(events, fh)
    res = tlc.run("ResampleTrace", "ResampleTrace.cfg", workers=1, env={"TRACE_FILE": f}, allow_violation=True, timeout=1200,
                  tag=f"restrace_run_{tag}_{os.getpid()}")
    if "ALLCHECKED" not in res.stdout:
        raise MachineryError("ResampleTrace did not complete:\n" + "\n".join(res.stdout.splitlines()[-25:]))
    rej = {}
    for v in printed_values(res.stdout, '<<"REJECT"') + printed_values(res.stdout, '<< "REJECT"'):
        rej[v[1]] = sorted(v[2])
    if chk is not None:
        chk.add_tlc(res, "ResampleTrace/" + tag)
    tlc.cleanup(res)
    __import__("shutil").rmtree(d, ignore_errors=True)
    return rej
