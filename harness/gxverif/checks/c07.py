"""C07 - every sample site of a seeded run gets its own independent randomness."""
from ..common import Check
from .. import seedcheck


def run(tier, argv):
    chk = Check("C07", tier)
    seedcheck.run(chk, tier, "C07")
    return chk.finish()
