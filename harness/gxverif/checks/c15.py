"""C15 - on deterministic code ADEV is ordinary forward-mode AD, for any argument shape."""
from fractions import Fraction

import numpy as np

from .. import jaxcompat  # noqa: F401
import jax
import jax.numpy as jnp

from ..common import Check, MachineryError
from .. import tlc
from ..tlaval import printed_values
from genjax.adev import expectation, Dual


def q(v):
    return float(Fraction(v[0], v[1]))


def build(e):
    def ev(e, X):
        k = e[0]
        if k == "x":
            return X
        if k == "xa":
            return X["a"]
        if k == "xb":
            return X["b"]
        if k == "c":
            return jnp.asarray(q(e[1]), dtype=jnp.float32)
        if k == "add":
            return ev(e[1], X) + ev(e[2], X)
        if k == "mul":
            return ev(e[1], X) * ev(e[2], X)
        if k == "neg":
            return -ev(e[1], X)
        if k == "sq":
            return jnp.square(ev(e[1], X))
        if k == "pow3":
            return ev(e[1], X) ** 3
        if k == "divc":
            return ev(e[1], X) / q(e[2])
        if k == "sum":
            return jnp.sum(ev(e[1], X))
        if k == "idx":
            return ev(e[1], X)[e[2] - 1]
        if k == "idx2":
            return ev(e[1], X)[e[2] - 1, e[3] - 1]
        if k == "slice1":
            return ev(e[1], X)[0:1]
        if k == "T":
            return ev(e[1], X).T
        if k == "dot":
            return jnp.dot(ev(e[1], X), ev(e[2], X))
        if k == "matmul":
            return ev(e[1], X) @ ev(e[2], X)
        if k == "where":
            return jnp.where(ev(e[1], X) > q(e[2]), ev(e[3], X), ev(e[4], X))
        if k == "cond":
            return jax.lax.cond(ev(e[1], X) > q(e[2]), lambda Y: ev(e[3], Y), lambda Y: ev(e[4], Y), X)
        if k == "cond2mul":
            a, b = jax.lax.cond(ev(e[1], X) > q(e[2]), lambda Y: (ev(e[3], Y), ev(e[4], Y)), lambda Y: (ev(e[5], Y), ev(e[6], Y)), X)
            return a * b
        if k == "condc":
            return jax.lax.cond(ev(e[1], X) > q(e[2]), lambda Y: ev(e[3], Y), lambda Y: q(e[4]), X)
        if k == "switch3":
            i = jnp.clip(ev(e[1], X).astype(jnp.int32), 0, 2)
            return jax.lax.switch(i, [lambda Y: ev(e[2], Y), lambda Y: ev(e[3], Y), lambda Y: ev(e[4], Y)], X)
        if k == "dynidx":
            v = ev(e[1], X)
            return v[jnp.argmax(v)]
        if k == "take21":
            return jnp.take(ev(e[1], X), jnp.array([1, 0]))
        if k == "clip11":
            return jnp.clip(ev(e[1], X), -1, 1)
        if k == "intfloor":
            return ev(e[1], X).astype(jnp.int32).astype(jnp.float32)
        raise ValueError(k)
    return lambda X: ev(e, X)


def val(v):
    """spec value [r, d] -> jnp array"""
    r, d = v["r"], v["d"]
    if r == 0:
        return jnp.asarray(q(d), dtype=jnp.float32)
    if r == 1:
        return jnp.asarray([q(x) for x in d], dtype=jnp.float32)
    return jnp.asarray([[q(x) for x in row] for row in d], dtype=jnp.float32)


def close(a, b, tol=2e-5):
    a, b = np.asarray(a, dtype=np.float64), np.asarray(b, dtype=np.float64)
    return a.shape == b.shape and np.all(np.abs(a - b) <= tol * (1.0 + np.abs(b)))


def run(tier, argv):
    chk = Check("C15", tier)
    res = tlc.run("ADEVDet", "ADEVDet.cfg", workers=1, timeout=900)
    chk.add_tlc(res, "ADEVDet.cfg")
    corpus = {c["n"]: c for c in tlc.load_json(res, "adevdet.json")}
    cases = printed_values(res.stdout, '<<"CASE"') + printed_values(res.stdout, '<< "CASE"')
    tlc.cleanup(res)
    if len(cases) < 50:
        raise MachineryError("ADEVDet printed too few cases")
    fns = {n: build(c["e"]) for n, c in corpus.items()}
    for (_, name, ty, arg, p, t) in cases:
        f = fns[name]
        if ty == "p":
            x = {"a": val(arg["a"]["p"]), "b": val(arg["b"]["p"])}
            tx = {"a": val(arg["a"]["t"]), "b": val(arg["b"]["t"])}
            dual = {"a": Dual(x["a"], tx["a"]), "b": Dual(x["b"], tx["b"])}
        else:
            x, tx = val(arg["p"]), val(arg["t"])
            dual = Dual(x, tx)
        ck = f"adevdet|{name}|x={jax.tree.map(lambda a: np.asarray(a).tolist(), x)}|t={jax.tree.map(lambda a: np.asarray(a).tolist(), tx)}"
        chk.case(ck)
        chk.validated(1)
        want_p, want_t = q(p), q(t)
        bad = []
        E = expectation(f)
        try:
            d = E.jvp_estimate(dual)
            jp, jt = jax.jvp(f, (x,), (tx,))
            if not close(jp, want_p) or not close(jt, want_t):
                raise MachineryError(f"spec dual semantics disagree with jax.jvp on {name}: {float(jp)},{float(jt)} vs {want_p},{want_t}")
            if not close(d.primal, want_p):
                bad.append(f"jvp_estimate primal {np.asarray(d.primal)} expected {want_p}")
            if not close(d.tangent, want_t):
                bad.append(f"jvp_estimate tangent {np.asarray(d.tangent)} expected {want_t} (= jax.jvp)")
        except MachineryError:
            raise
        except Exception as ex:
            bad.append(f"jvp_estimate raised {type(ex).__name__}: {str(ex).splitlines()[0][:120] if str(ex) else ''}")
        try:
            g = E.grad_estimate(x)
            jg = jax.grad(f)(x)
            for a, b in zip(jax.tree.leaves(g), jax.tree.leaves(jg)):
                if not close(a, b):
                    bad.append(f"grad_estimate {np.asarray(a).tolist()} expected jax.grad {np.asarray(b).tolist()}")
            dirder = sum(float(jnp.sum(a * b)) for a, b in zip(jax.tree.leaves(g), jax.tree.leaves(tx)))
            if abs(dirder - want_t) > 1e-4 * (1 + abs(want_t)):
                bad.append(f"<grad_estimate, seed> = {dirder} expected the spec tangent {want_t}")
        except Exception as ex:
            bad.append(f"grad_estimate raised {type(ex).__name__}: {str(ex).splitlines()[0][:120] if str(ex) else ''}")
        for vname, call in (("estimate", lambda: E.estimate(x)), ("jit(estimate)", lambda: jax.jit(E.estimate)(x))):
            try:
                v = call()
                if not close(v, want_p):
                    bad.append(f"{vname} {np.asarray(v)} expected the function value {want_p}")
            except Exception as ex:
                bad.append(f"{vname} raised {type(ex).__name__}: {str(ex).splitlines()[0][:120] if str(ex) else ''}")
        if bad:
            chk.violation(ck, "; ".join(bad[:3]), {"program": name, "expr": corpus[name]["e"]})
    c = cases[len(cases) // 2]
    chk.sample({"program": c[1], "arg_type": c[2], "primal": list(c[4]), "tangent": list(c[5])})
    chk.cov["rule"] = ("every (program of the ADEVDet.tla corpus: arithmetic, integer_pow, division, reductions, indexing, slicing, transpose, dot, "
                       "matmul, where, cond (either branch; two outputs), switch over three branches, integer intermediates, integer operands) x (argument point, tangent seed) for scalar, vector, matrix "
                       "and pytree arguments; jvp_estimate / grad_estimate / estimate (also under jit) against the exact dual-number values and "
                       "jax.jvp / jax.grad")
    chk.cov["exhaustive"] = True
    return chk.finish()
