"""Shared driver for C06 / C07: TLC on Seed.tla, replay of its interleavings on real seeded functions."""
import json
import os
import random

from . import jaxcompat  # noqa: F401
import jax
import jax.numpy as jnp
import numpy as np

from . import tlc
from .common import MachineryError
from .tlaval import parse_dump
from . import seedbuild as SB
from genjax.pjax import seed, LoweringSamplePrimitiveToMLIRException
import genjax


def _prog_json(p):
    """parsed TLA+ program (tuples / dicts) -> JSON-like lists."""
    out = []
    for s in p:
        d = dict(s)
        if "brs" in d:
            d["brs"] = [_prog_json(b) for b in d["brs"]]
        if "body" in d:
            d["body"] = _prog_json(d["body"])
        out.append(d)
    return out


def canon_prog(p):
    def st(s):
        k = s["k"]
        if k == "S":
            return "S"
        if k == "V":
            return f"V{s['n']}"
        if k == "C":
            return "C(" + canon_prog(s["brs"][0]) + "|" + canon_prog(s["brs"][1]) + ")"
        if k == "N":
            return f"N{s['n']}(" + canon_prog(s["body"]) + ")"
        return k + "(" + canon_prog(s["body"]) + ")"
    return ";".join(st(s) for s in p)


class SeedReplayer:
    def __init__(self, seed_):
        self.fns = {}
        self.seed = seed_
        self.roots = {1: jax.random.key(1000 + seed_), 2: jax.random.key(2000 + seed_)}

    def fn(self, prog, v_mode):
        k = (canon_prog(prog), v_mode)
        if k not in self.fns:
            f, cpaths = SB.build(prog, v_mode)
            sf = seed(f)
            self.fns[k] = {"f": f, "cpaths": cpaths, "seeded": sf, "jit": jax.jit(sf),
                           "vmap": jax.vmap(sf, in_axes=(0, None)), "vmapd": jax.vmap(sf, in_axes=(0, 0)),
                           "jitvmap": jax.jit(jax.vmap(sf, in_axes=(0, None))), "kw": seed(lambda *, decs: f(decs))}
        return self.fns[k]

    def call(self, prog, r, dec, variant, v_mode="modular_vmap"):
        F = self.fn(prog, v_mode)
        decs = jnp.asarray([dec[p] for p in F["cpaths"]], dtype=jnp.int32).reshape((len(F["cpaths"]),))
        key = self.roots[r]
        other = self.roots[3 - r]
        if variant == "eager":
            return np.asarray(F["seeded"](key, decs))
        if variant == "jit":
            return np.asarray(F["jit"](key, decs))
        if variant == "kw":
            return np.asarray(F["kw"](key, decs=decs))
        keys = jnp.stack([other, key, key])
        if variant == "vmap":
            return np.asarray(F["vmap"](keys, decs))[1]
        if variant == "jitvmap":
            return np.asarray(F["jitvmap"](keys, decs))[2]
        if variant == "vmapd":
            alt = 3 - decs if decs.size else decs
            return np.asarray(F["vmapd"](keys, jnp.stack([alt, decs, alt])))[1]
        raise ValueError(variant)


VARIANTS = ["eager", "jit", "vmap", "jitvmap", "kw", "vmapd"]
# how vector sites get their shape / which primitive object the sites share (seedbuild.build)
V_MODES = ["modular_vmap", "sample_shape", "shared_param", "shared_kw", "wrapped_kw"]


def run(chk, tier, want):
    """want: 'C06' or 'C07' - which clauses this run attributes violations to."""
    cfg = "Seed_q.cfg" if tier == "quick" else "Seed_t.cfg"
    tag = f"seed_{chk.pid}_{os.getpid()}"
    dump = os.path.join(tlc.OUT, tag + "_states")
    res = tlc.run("Seed", cfg, workers=16, extra=["-dump", dump], timeout=1500, tag=tag)
    chk.add_tlc(res, cfg)
    states = [s for s in parse_dump(dump + ".dump") if s["n"] >= 1]
    os.remove(dump + ".dump")
    tlc.cleanup(res)
    r2 = tlc.run("Seed", "Seed_prefix.cfg", workers=2, allow_violation=True, timeout=300)
    if r2.invariant_violated != "NoHiddenOld":
        raise MachineryError("vacuity guard: TLC no longer refutes the fall-through model (NoHiddenOld)")
    chk.cov["binding_demo"].append("TLC refutes NoHiddenOld (Seed falling through on an uninterpreted equation with a site): NoHidden is not vacuous")
    tlc.cleanup(r2)
    rng = random.Random(chk.seed)
    # behaviours: maximal interleavings; always at least one per program, plus a seeded sample
    maximal = [s for s in states if s["n"] == max(x["n"] for x in states)]
    byprog = {}
    for s in maximal:
        byprog.setdefault(repr(s["prog"]), []).append(s)
    chosen = []
    per = 2 if tier == "quick" else 8
    for k in sorted(byprog):
        L = byprog[k]
        withseed = [s for s in L if sum(1 for c in s["calls"] if c["a"] == "seeded") >= 2] or L
        chosen += rng.sample(withseed, min(per, len(withseed)))
    rp = SeedReplayer(chk.seed)
    vi = 0
    for n_prog, st in enumerate(chosen):
        if n_prog and n_prog % 40 == 0:
            # thousands of compiled executables in one process end in a crash inside XLA's compiler (mapped-memory limits):
            # drop the ones of programs that are finished
            rp.fns.clear()
            jax.clear_caches()
        prog = _prog_json(st["prog"])
        pname = canon_prog(prog)
        results = {}
        opaque = any(s["k"] in ("O", "J") for s in prog)
        for ci, c in enumerate(st["calls"]):
            if c["a"] == "unseeded":
                genjax.normal.sample(0.0, 1.0)          # foreign unseeded sampling: bumps the hidden global counter
                continue
            dec = {tuple(p): b for p, b in (c["dec"].items() if isinstance(c["dec"], dict) else [])}
            variant = VARIANTS[vi % len(VARIANTS)]
            vi += 1
            if opaque and variant in ("vmap", "jitvmap", "vmapd", "kw"):
                variant = "eager" if vi % 2 else "jit"
            v_mode = V_MODES[(vi // len(VARIANTS) + vi) % len(V_MODES)]
            key = f"prog={pname}|root={c['r']}|dec={sorted(dec.items())}"
            chk.case((pname, c["r"], repr(sorted(dec.items())), variant, v_mode, ci))
            chk.validated(1)
            try:
                rows = rp.call(prog, c["r"], dec, variant, v_mode)
                raised = None
            except LoweringSamplePrimitiveToMLIRException:
                rows, raised = None, "lowering"
            except Exception as ex:
                rows, raised = None, f"{type(ex).__name__}: {str(ex)[:120]}"
            if c["err"]:
                # Contract: a construct Seed does not interpret must raise the dedicated error, or (if it ran) must not
                # have used hidden randomness: two identical calls must agree
                if raised is None:
                    genjax.normal.sample(0.0, 1.0)
                    again = rp.call(prog, c["r"], dec, variant, v_mode)
                    other = rp.call(prog, 3 - c["r"], dec, variant, v_mode)
                    mask = SB.layout(prog, dec)
                    pick = lambda a: [tuple(int(x) for x in a[i]) for i in range(len(mask)) if mask[i]]
                    if want == "C06":
                        if not np.array_equal(rows, again):
                            chk.violation(f"hidden-randomness|prog={pname}|variant={variant}",
                                          "seeded function with an uninterpreted (checkpoint) sampling site returns different results for "
                                          "the same key: the site draws from hidden state", {"prog": prog})
                        elif set(pick(rows)) & set(pick(other)):
                            chk.violation(f"key-independent|prog={pname}|variant={variant}",
                                          "seeded function with an uninterpreted (checkpoint) sampling site returns draws that do not depend "
                                          "on the key (fixed randomness baked in) instead of raising the lowering error", {"prog": prog})
                elif raised != "lowering":
                    chk.divergence(f"{pname}: uninterpreted construct raised {raised}")
                continue
            if raised is not None:
                if want == "C06":
                    chk.violation(f"raises|{key}|variant={variant}", f"seeded call raised {raised}", {"prog": prog})
                continue
            mask = SB.layout(prog, dec)
            valid = [tuple(int(x) for x in rows[i]) for i in range(len(mask)) if mask[i]]
            if len(valid) != len(c["sites"]):
                raise MachineryError(f"layout mismatch for {pname}: {len(valid)} rows vs {len(c['sites'])} spec sites")
            rk = (c["r"], repr(sorted(dec.items())))
            if rk in results and results[rk][0] != valid and want == "C06":
                chk.violation(f"impure|{key}|variants={results[rk][1]},{variant}",
                              f"same key and arguments gave different results ({results[rk][1]} vs {variant}, v_mode={v_mode})",
                              {"prog": prog, "first": results[rk][0], "second": valid})
            results.setdefault(rk, (valid, variant))
            if want == "C07":
                if len(set(valid)) != len(valid):
                    dup = [v for v in valid if valid.count(v) > 1][0]
                    idx = [i for i, v in enumerate(valid) if v == dup]
                    chk.violation(f"shared-randomness|{key}|sites={idx}", f"sites {idx} of one seeded run returned the same 64 random bits "
                                  f"(variant {variant}, v_mode {v_mode})", {"prog": prog, "rows": valid})
            # Impl-level (informational): the observed bits are those of the model's key terms
            pred = [tuple(int(x) for x in r) for r in SB.predicted_rows(c["sites"], rp.roots)]
            if pred != valid:
                chk.divergence(f"{pname} root={c['r']}: observed bits differ from the Impl model's key terms (first at site "
                               f"{[i for i, (a, b) in enumerate(zip(pred, valid)) if a != b][:1]})")
        # distinct roots give distinct draws
        rs = {}
        for (r, d), (valid, _) in results.items():
            rs.setdefault(d, {})[r] = valid
        for d, m in rs.items():
            if 1 in m and 2 in m and set(m[1]) & set(m[2]):
                chk.violation(f"roots-collide|prog={pname}|dec={d}", "two different keys produced a common draw", {"prog": prog})
    if want == "C07":
        # the bounded model uses scans of length 2; the iteration index also has to stay injective for LONG scans (a site of every
        # iteration gets its own stream): one seeded scan over 70 000 iterations, every site returns the bits it consumed
        n_long = 70000
        ck = f"long-scan|n={n_long}"
        chk.case(ck)
        chk.validated(1)
        try:
            def long_prog():
                return jax.lax.scan(lambda c, _: (c, SB.bits_site()), 0, None, length=n_long)[1]
            rows = np.asarray(jax.jit(seed(long_prog))(jax.random.key(chk.seed + 5)))
            packed = rows[:, 0].astype(np.uint64) << np.uint64(32) | rows[:, 1].astype(np.uint64)
            uniq, first, counts = np.unique(packed, return_index=True, return_counts=True)
            if len(uniq) != n_long:
                dup = uniq[counts > 1][0]
                idx = np.nonzero(packed == dup)[0][:3].tolist()
                chk.violation(ck, f"iterations {idx} of one seeded scan of length {n_long} returned the same 64 random bits "
                              f"({n_long - len(uniq)} repeated draws)", {"iterations": idx})
        except Exception as ex:
            chk.violation(ck, f"raised {type(ex).__name__}: {str(ex).splitlines()[0][:140] if str(ex) else ''}", {})
    if chosen:
        st = chosen[len(chosen) // 2]
        chk.sample({"program": canon_prog(_prog_json(st["prog"])),
                    "interleaving": [c["a"] + (f"(root={c['r']})" if c["a"] == "seeded" else "") for c in st["calls"]]})
    chk.cov["programs"] = len(byprog)
    chk.cov["behaviours_replayed"] = len(chosen)
    chk.cov["rule"] = ("TLC: every program of the Seed.tla grammar x every interleaving of <= MaxSteps seeded calls (both roots, all branch "
                       "decisions) and foreign unseeded sampling; replay: for every program a seeded sample of maximal interleavings is run on "
                       "the real seed(f), rotating eager / jit / vmap-over-keys / jit-of-vmap / keyword-argument / batched-predicate variants and "
                       "modular_vmap vs sample_shape lanes; sites reveal the 64 random bits they consume")
    chk.assumptions.append("threefry: distinct key terms give independent streams (64-bit collisions have negligible probability)")
    return chk
