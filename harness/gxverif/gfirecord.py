"""Direction (B) for the GFI: run the real code with REAL randomness, record events, let TLC validate them (GFITrace.tla)."""
import json
import math
import os
import random

from . import jaxcompat  # noqa: F401
import jax
import jax.numpy as jnp
import numpy as np

from . import tlc
from .common import quantise, MachineryError
from .gfibuild import Builder
from .selbuild import mk_sel, canon
from genjax import seed


def addr_path(p):
    return tuple(a for a in p if not a.isdigit())


def spec_arg_space(B, prog):
    k = B.kind(prog)
    if k == "cond":
        return [(c, a) for c in (0, 1) for a in range(3)]
    if k == "vmap" and not B.GF[prog]["bcast"]:
        return [(a, b) for a in range(3) for b in range(3)]
    if k == "scan":
        n = B.GF[prog]["n"]
        return [(c, xs) for c in range(3) for xs in ([(0,) * n, tuple(i % 3 for i in range(n)), (2,) * n])]
    return [0, 1, 2]


def leaves_json(d):
    return [{"p": list(p), "v": int(v)} for p, v in sorted(d.items())]


class Recorder:
    def __init__(self, gfj, seed_):
        self.B = Builder(gfj["gf"], real=True)
        self.rng = random.Random(seed_)
        self.events = []
        self.keyctr = seed_ * 1000003 % (2 ** 31)
        self._jit = {}

    def key(self):
        self.keyctr += 1
        return jax.random.key(self.keyctr)

    def cargs(self, prog, arg):
        script = self.B.struct(prog, (), {}, partial=False)
        return self.B.call_args(prog, script, self.B.arg_to_real(prog, arg))

    def obs(self, prog, tr):
        return {"leaves": leaves_json(self.B.leaves(prog, (), tr.get_choices())), "score": quantise(tr.get_score()),
                "ret": self.B.ret_to_spec(tr.get_retval())}

    def ev(self, prog, op, arg, variant, **kw):
        e = {"tid": len(self.events) + 1, "prog": prog, "op": op, "arg": arg if not isinstance(arg, tuple) else list(arg),
             "variant": variant, **kw}
        self.events.append(e)
        return e

    # ---------------------------------------------------------------------------------------------
    def simulate(self, prog, arg, variant, n):
        gf = self.B.build(prog)
        cargs = self.cargs(prog, arg)
        out = []
        if variant == "eager":
            for _ in range(n):
                out.append(seed(gf.simulate)(self.key(), *cargs))
        elif variant == "jit":
            f = self._jit.setdefault(("sim", prog), jax.jit(seed(gf.simulate)))
            for _ in range(n):
                out.append(f(self.key(), *cargs))
        elif variant == "vmap":
            keys = jax.random.split(self.key(), n)
            f = self._jit.setdefault(("simv", prog), jax.jit(jax.vmap(seed(gf.simulate), in_axes=(0,) + (None,) * len(cargs))))
            trs = f(keys, *cargs)
            out = [jax.tree.map(lambda x: x[i], trs) for i in range(n)]
        for tr in out:
            self.ev(prog, "simulate", arg, variant, **self.obs(prog, tr))
        return out

    def random_cons(self, prog, maxk=2):
        lp = self.B.leaf_paths(prog)
        groups = {}
        for p in lp:
            groups.setdefault(addr_path(p), []).append(p)
        ks = self.rng.sample(sorted(groups), self.rng.randint(0, min(maxk, len(groups))))
        return {p: self.rng.randrange(3) for k in ks for p in groups[k]}

    def generate(self, prog, arg, variant):
        gf = self.B.build(prog)
        cl = self.random_cons(prog, maxk=3)
        cons = self.B.struct(prog, (), cl, partial=True)
        cargs = self.cargs(prog, arg)
        f = seed(gf.generate)
        if variant == "jit":
            f = jax.jit(f)
        tr, w = f(self.key(), cons, *cargs)
        self.ev(prog, "generate", arg, variant, w=quantise(w), cons=leaves_json(cl), cpaths=[list(p) for p in sorted(cl)], **self.obs(prog, tr))
        return tr

    def assess(self, prog, arg, tr):
        gf = self.B.build(prog)
        lp, r = gf.assess(tr.get_choices(), *self.cargs(prog, arg))
        o = self.obs(prog, tr)
        o["ret"] = self.B.ret_to_spec(r)
        self.ev(prog, "assess", arg, "eager", w=quantise(jnp.sum(lp)), **o)

    def update(self, prog, old_arg, tr, new_arg):
        gf = self.B.build(prog)
        cl = self.random_cons(prog, maxk=2)
        cons = self.B.struct(prog, (), cl, partial=True)
        old = self.obs(prog, tr)
        ntr, w, d = gf.update(tr, cons, *self.cargs(prog, new_arg))
        self.ev(prog, "update", new_arg, "eager", w=quantise(w), cons=leaves_json(cl), old_leaves=old["leaves"],
                old_arg=old_arg if not isinstance(old_arg, tuple) else list(old_arg), **self.obs(prog, ntr))
        return ntr

    def regenerate(self, prog, old_arg, tr, new_arg, sel_json, variant="eager"):
        gf = self.B.build(prog)
        s = mk_sel(sel_json)
        old = self.obs(prog, tr)
        f = seed(lambda t, *a: gf.regenerate(t, s, *a))
        ntr, w, d = f(self.key(), tr, *self.cargs(prog, new_arg))
        self.ev(prog, "regenerate", new_arg, variant, w=quantise(w), sel=sel_json, old_leaves=old["leaves"],
                old_arg=old_arg if not isinstance(old_arg, tuple) else list(old_arg), **self.obs(prog, ntr))
        return ntr

    def sels_for(self, prog):
        aps = sorted({addr_path(p) for p in self.B.leaf_paths(prog)} - {()})
        out = [{"k": "all"}, {"k": "none"}]
        for ap in aps:
            out += [{"k": "str", "s": ap[0]}, {"k": "tup", "t": list(ap)}, {"k": "not", "x": {"k": "tup", "t": list(ap)}}]
        if len(aps) >= 2:
            out.append({"k": "or", "x": {"k": "tup", "t": list(aps[0])}, "y": {"k": "tup", "t": list(aps[-1])}})
            out.append({"k": "and", "x": {"k": "not", "x": {"k": "str", "s": aps[0][0]}}, "y": {"k": "all"}})
        return out


def validate(chk, events, tag, expect_reject=None):
    """Run GFITrace.tla over the events; returns {event index: failing clauses}."""
    from .tlaval import printed_values
    d = os.path.join(tlc.OUT, f"gfitrace_{tag}_{os.getpid()}")
    os.makedirs(d, exist_ok=True)
    f = os.path.join(d, "events.json")
    with open(f, "w") as fh:
        json.dump(events, fh)
    res = tlc.run("GFITrace", "GFITrace.cfg", workers=1, env={"TRACE_FILE": f}, allow_violation=True, timeout=3000,
                  tag=f"gfitrace_run_{tag}_{os.getpid()}")
    if "ALLCHECKED" not in res.stdout:
        raise MachineryError("GFITrace did not run to completion:\n" + "\n".join(res.stdout.splitlines()[-30:]))
    rej = {}
    for v in printed_values(res.stdout, '<<"REJECT"') + printed_values(res.stdout, '<< "REJECT"'):
        rej[v[1]] = sorted(v[2])
    if chk is not None:
        chk.add_tlc(res, "GFITrace/" + tag)
    tlc.cleanup(res)
    __import__("shutil").rmtree(d, ignore_errors=True)
    return rej


def chi2_pvalue_upper(chi2, dof):
    """Wilson-Hilferty upper tail approximation (no scipy in /venv is assumed)."""
    if dof <= 0:
        return 1.0
    z = ((chi2 / dof) ** (1.0 / 3.0) - (1.0 - 2.0 / (9.0 * dof))) / math.sqrt(2.0 / (9.0 * dof))
    return 0.5 * math.erfc(z / math.sqrt(2.0))


def _record_prog(job):
    """records the events of ONE program (all arguments); returns (events, freq, violations)."""
    gfj, seed_, prog, kinds, n_per, chi2, history = job
    import zlib
    R = Recorder(gfj, seed_ + 31 + zlib.crc32(prog.encode()) % 1000)
    freq = {}
    viol = []
    for arg in spec_arg_space(R.B, prog):
        try:
            trs = []
            if "simulate" in kinds:
                for variant, n in (("eager", max(2, n_per // 10)), ("jit", max(2, n_per // 4)), ("vmap", n_per)):
                    new = R.simulate(prog, arg, variant, n)
                    trs += new[:3]
                    if chi2:
                        for e in R.events[-len(new):]:
                            k = (prog, json.dumps(arg), json.dumps(e["leaves"]))
                            freq.setdefault((prog, json.dumps(arg)), {}).setdefault(k, [0, e["score"]])[0] += 1
                for tr in trs[:4]:
                    R.assess(prog, arg, tr)
            else:
                trs = R.simulate(prog, arg, "jit", 2)
                del R.events[-2:]
            if "generate" in kinds:
                for i in range(n_per):
                    R.generate(prog, arg, "jit" if i % 2 else "eager")
            args = spec_arg_space(R.B, prog)
            if "update" in kinds:
                for i in range(n_per):
                    R.update(prog, arg, trs[i % len(trs)], R.rng.choice(args))
            if "regenerate" in kinds:
                sels = R.sels_for(prog)
                for i in range(n_per):
                    R.regenerate(prog, arg, trs[i % len(trs)], R.rng.choice(args), sels[i % len(sels)])
            for h in range(history):
                tr, a = trs[h % len(trs)], arg
                for step in range(4):
                    a2 = R.rng.choice(args)
                    if R.rng.random() < 0.5:
                        tr = R.update(prog, a, tr, a2)
                    else:
                        tr = R.regenerate(prog, a, tr, a2, R.rng.choice(R.sels_for(prog)))
                    if R.rng.random() < 0.3:
                        tr = jax.jit(lambda t: t)(tr)
                    a = a2
        except MachineryError:
            raise
        except Exception as ex:        # the code under test failed on a well-formed call: a definedness violation, not a harness failure
            viol.append((f"raised|prog={prog}|arg={arg}|{type(ex).__name__}",
                         f"a GFI call on program {prog} (arg {arg}) raised {type(ex).__name__}: {str(ex).splitlines()[0][:160] if str(ex) else ''}",
                         {"program": prog, "arg": arg, "ops": sorted(kinds)}))
    return R.events, freq, viol, {prog: len(R.B.leaf_paths(prog))}


class _Events:
    pass


def run_b(chk, kinds, progs, n_per, *, chi2=False, history=0):
    """Record real-randomness events of the given op kinds for each program/argument, validate with TLC (GFITrace.tla)."""
    from . import gficheck
    gfj = gficheck.export_gf()
    # top-level Scan programs are replayed in direction (A) only (GFITrace has no argument space for them)
    progs = [p for p in progs if gfj["gf"][p]["kind"] != "scan"]
    jobs = [(gfj, chk.seed, prog, set(kinds), n_per, chi2, history) for prog in progs]
    if n_per * max(1, len(kinds)) + 4 * history >= 100:
        # long recordings run in short-lived worker processes (one per program): a process that stages and evaluates many
        # thousands of functions eagerly eventually dies inside LLVM's JIT ("Unable to allocate section memory")
        import multiprocessing as mp
        with mp.get_context("spawn").Pool(min(6, len(jobs)), maxtasksperchild=1) as pool:
            outs = pool.map(_record_prog, jobs, chunksize=1)
    else:
        outs = [_record_prog(j) for j in jobs]
    R = _Events()
    R.events, freq, nleaves = [], {}, {}
    for ev_, fr_, viol, nl in outs:
        R.events += ev_
        freq.update(fr_)
        nleaves.update(nl)
        for k, what, detail in viol:
            chk.violation(k, what, detail)
    rej = validate(chk, R.events, chk.pid)
    chk.validated(len(R.events) - len(rej))
    for i, clauses in rej.items():
        e = R.events[i - 1]
        chk.violation(f"trace|{e['op']}|prog={e['prog']}|arg={e['arg']}|variant={e['variant']}|clauses={','.join(clauses)}",
                      f"recorded {e['op']} event rejected by GFITrace: {clauses}", e)
    for e in R.events[:2]:
        chk.sample({"kind": "recorded-event", **{k: e[k] for k in ("prog", "op", "arg", "variant", "leaves", "score", "ret")}})
    # binding demo: a corrupted score and a corrupted leaf must be rejected
    demo = [dict(e) for e in R.events[:6]]
    demo[1]["score"] += 1
    demo[3]["leaves"] = [dict(x) for x in demo[3]["leaves"]]
    demo[3]["leaves"][0]["v"] = (demo[3]["leaves"][0]["v"] + 1) % 3
    r2 = validate(None, demo, chk.pid + "_demo")
    if 2 not in r2 or 4 not in r2:
        raise MachineryError(f"binding demo failed: corrupted events not rejected ({r2})")
    chk.cov["binding_demo"].append(f"corrupting the recorded score of event 2 and one recorded choice of event 4 makes GFITrace reject them: {r2}")
    # chi-square screen of outcome frequencies against the validated density (the only statistical ingredient)
    if chi2:
        worst = 1.0
        for (prog, arg), table in freq.items():
            N = sum(c for c, _ in table.values())
            # cells with an expected count below 5 (and everything that was never observed) are pooled into one cell: the
            # chi-square approximation is not valid for sparse cells
            chi, cov, big, pool_c, pool_e = 0.0, 0.0, 0, 0.0, 0.0
            for (c, score) in table.values():
                E = N * 2.0 ** (-score)
                cov += E
                if E >= 5.0:
                    chi += (c - E) ** 2 / E
                    big += 1
                else:
                    pool_c += c
                    pool_e += E
            pool_e += max(0.0, N - cov)
            if pool_e > 0:
                chi += (pool_c - pool_e) ** 2 / pool_e
                big += 1
            dof = max(1, big - 1)
            pv = chi2_pvalue_upper(chi, dof)
            worst = min(worst, pv)
            if pv < 1e-9:
                chk.violation(f"frequency|prog={prog}|arg={arg}", f"outcome frequencies of simulate deviate from exp(-score): chi2={chi:.1f} dof={dof} p={pv:.2e} N={N}")
        chk.cov["chi2_min_p"] = worst
    return len(R.events)
