"""Harness-side JAX 0.7 -> 0.11 API compatibility shim (prototype)."""
import sys
import jax, jax.core as jc, jax._src.core as jsc
import jax.extend.core as jexc
from jax._src import custom_derivatives as _cd

def _get_aval(x):
    return jsc.typeof(x)
for mod in (jc, jsc):
    for name, val in [("get_aval", _get_aval), ("TraceTag", jsc.TraceTag), ("DropVar", jsc.DropVar)]:
        try:
            getattr(mod, name)
        except AttributeError:
            setattr(mod, name, val)
if not hasattr(jsc.Var, "count"):
    jsc.Var.count = property(lambda self: id(self))

class _ScanParams(dict):
    def __missing__(self, k):
        if k == "num_consts":
            return len(self["ft_in"].unpack()[0])
        if k == "num_carry":
            return len(self["ft_in"].unpack()[1])
        raise KeyError(k)

def _patch_gbp(cls):
    orig = cls.__dict__.get("get_bind_params")
    if orig is None or getattr(orig, "_genjax_shim", False):
        return
    def get_bind_params(self, params):
        out = orig(self, params)
        if sys._getframe(1).f_globals.get("__name__", "").startswith("genjax"):
            if self is jax.lax.scan_p:
                out = _ScanParams(out)
            return [], out
        return out
    get_bind_params._genjax_shim = True
    cls.get_bind_params = get_bind_params
def _all_subclasses(c):
    for s in c.__subclasses__():
        yield s
        yield from _all_subclasses(s)
_patch_gbp(jsc.Primitive)
for c in list(_all_subclasses(jsc.Primitive)):
    _patch_gbp(c)

_orig_jaxpr_as_fun = jexc.jaxpr_as_fun
def _jaxpr_as_fun(j, *a, **k):
    if isinstance(j, jsc.Jaxpr):
        j = jsc.ClosedJaxpr(j, ())
    return _orig_jaxpr_as_fun(j, *a, **k)
jexc.jaxpr_as_fun = _jaxpr_as_fun

# --- ad.Zero.from_primal_value and old-style ad.jvp(wrapped_fun).call_wrapped(primals, tangents)
from jax._src import ad_util as _ad_util
from jax.interpreters import ad as _ad
import jax._src.interpreters.ad as _ad_src
if not hasattr(_ad_util.Zero, "from_primal_value"):
    _ad_util.Zero.from_primal_value = staticmethod(_ad_util.p2tz)

_orig_ad_jvp = _ad_src.jvp
class _OldStyleJvp:
    def __init__(self, fun):
        self.fun = fun
    def call_wrapped(self, primals, tangents):
        primals = tuple(primals)
        tangents = tuple(_ad_src.instantiate_zeros(t) for t in tangents)
        def f(*a):
            return tuple(self.fun.call_wrapped(*a))
        out_p, out_t = jax.jvp(f, primals, tangents)
        return list(out_p), list(out_t)
def _compat_ad_jvp(fun, *args, **kwargs):
    if not args and not kwargs and sys._getframe(1).f_globals.get("__name__", "").startswith("genjax"):
        return _OldStyleJvp(fun)
    return _orig_ad_jvp(fun, *args, **kwargs)
_ad.jvp = _compat_ad_jvp
