"""Seed.tla program records -> real JAX functions with PJAX sample sites that reveal their randomness.

Every site draws `jax.random.bits(key, sample_shape + (2,), uint32)`: the 64 bits a genuine sampler would consume.
The function returns one row (2 x uint32) per site slot in execution order; slots of a `cond` are padded to the
longest branch. `layout` mirrors the traversal in pure Python and says which rows are real for given decisions.
"""
from . import jaxcompat  # noqa: F401
import jax
import jax.numpy as jnp
import numpy as np

from genjax.pjax import wrap_sampler, modular_vmap, seed, sample_binder


def _bits(key, sample_shape=()):
    return jax.random.bits(key, tuple(sample_shape) + (2,), dtype=jnp.uint32)


bits_site = wrap_sampler(_bits, name="bits")


def _bits_param(key, p, sample_shape=()):
    return jax.random.bits(key, tuple(sample_shape) + jnp.shape(p) + (2,), dtype=jnp.uint32)


# ONE long-lived sampling primitive (the documented `sample_binder` idiom) shared by every site of every program built with
# v_mode="shared_param": scalar sites pass a scalar parameter, vector sites a parameter of shape (n,). Its results must not depend
# on which shapes it was used with before (C06: nothing but key and arguments).
shared_site = sample_binder(_bits_param, name="bits_shared")
# the wrap_sampler idiom of the library's own distributions, parameter passed by KEYWORD (v_mode="wrapped_kw")
wrapped_site = wrap_sampler(_bits_param, name="bits_wrapped")


def pos(n_remaining):
    return str(n_remaining)


def cond_paths(p, path=()):
    out = []
    for i, s in enumerate(p):
        here = path + (pos(len(p) - i),)
        if s["k"] == "C":
            out.append(here)
            out += cond_paths(s["brs"][0], here + ("1",)) + cond_paths(s["brs"][1], here + ("2",))
        elif s["k"] == "N":
            for j in range(s["n"]):
                out += cond_paths(s["body"], here + (str(j + 1),))
        elif s["k"] == "G":
            out += cond_paths(s["body"], here + ("g",))
    return out


def nslots(p):
    n = 0
    for s in p:
        k = s["k"]
        if k == "S":
            n += 1
        elif k == "V":
            n += s["n"]
        elif k in ("G", "O", "J"):
            n += nslots(s["body"])
        elif k == "C":
            n += max(nslots(s["brs"][0]), nslots(s["brs"][1]))
        elif k == "N":
            n += s["n"] * nslots(s["body"])
    return n


def layout(p, dec, path=()):
    """list of booleans, one per output row: True = a site that executed for decisions `dec` (path -> 1|2)."""
    out = []
    for i, s in enumerate(p):
        here = path + (pos(len(p) - i),)
        k = s["k"]
        if k == "S":
            out.append(True)
        elif k == "V":
            out += [True] * s["n"]
        elif k == "G":
            out += layout(s["body"], dec, here + ("g",))
        elif k in ("O", "J"):
            out += layout(s["body"], dec, here + ("o",))
        elif k == "C":
            b = dec[here]
            rows = layout(s["brs"][b - 1], dec, here + (str(b),))
            m = max(nslots(s["brs"][0]), nslots(s["brs"][1]))
            out += rows + [False] * (m - len(rows))
        elif k == "N":
            for j in range(s["n"]):
                out += layout(s["body"], dec, here + (str(j + 1),))
    return out


def build(prog, v_mode="modular_vmap"):
    """returns (f, cpaths): f(decs: int32[len(cpaths)]) -> uint32[nslots, 2]."""
    cpaths = cond_paths(prog)
    cidx = {p: i for i, p in enumerate(cpaths)}

    def emit(p, path, lookup):
        rows = []
        for i, s in enumerate(p):
            here = path + (pos(len(p) - i),)
            k = s["k"]
            if k == "S":
                if v_mode == "shared_param":
                    rows.append(shared_site(jnp.zeros(()))[None, :])
                elif v_mode == "shared_kw":
                    rows.append(shared_site(p=jnp.zeros(()))[None, :])
                elif v_mode == "wrapped_kw":
                    rows.append(wrapped_site(p=jnp.zeros(()))[None, :])
                else:
                    rows.append(bits_site()[None, :])
            elif k == "V":
                if v_mode == "shared_param":
                    rows.append(shared_site(jnp.zeros((s["n"],))))
                elif v_mode == "shared_kw":
                    rows.append(shared_site(p=jnp.zeros((s["n"],))))
                elif v_mode == "wrapped_kw":
                    rows.append(wrapped_site(p=jnp.zeros((s["n"],))))
                elif v_mode == "modular_vmap":
                    rows.append(modular_vmap(lambda: bits_site(), axis_size=s["n"])())
                else:
                    rows.append(bits_site(sample_shape=(s["n"],)))
            elif k == "G":
                rows.append(emit(s["body"], here + ("g",), lookup))
            elif k == "O":
                body = s["body"]
                rows.append(jax.checkpoint(lambda: emit(body, here + ("o",), lookup))())
            elif k == "J":
                body = s["body"]

                @jax.custom_jvp
                def cj(z):
                    return emit(body, here + ("o",), lookup) + (0 * z).astype(jnp.uint32)
                cj.defjvp(lambda p, t: (cj(*p), jnp.zeros((nslots(body), 2), dtype=jax.dtypes.float0)))
                rows.append(cj(jnp.zeros((), jnp.float32)))
            elif k == "C":
                m = max(nslots(s["brs"][0]), nslots(s["brs"][1]))

                def mk(b):
                    def br(_):
                        r = emit(s["brs"][b], here + (str(b + 1),), lookup)
                        return jnp.concatenate([r, jnp.zeros((m - r.shape[0], 2), jnp.uint32)], axis=0)
                    return br
                rows.append(jax.lax.switch(lookup(here) - 1, [mk(0), mk(1)], 0))
            elif k == "N":
                n = s["n"]
                body = s["body"]
                # decisions of the conds inside the body, per iteration (conds are nested in at most one scan level)
                inner = [q[len(here) + 1:] for q in cond_paths(body, here + ("1",))]
                xs = jnp.stack([jnp.stack([lookup(here + (str(j + 1),) + suf) for suf in inner]) if inner
                                else jnp.zeros((0,), jnp.int32) for j in range(n)])

                def step(c, x):
                    def lk(q):
                        return x[inner.index(q[len(here) + 1:])]
                    return c, emit(body, here + ("it",), lk)
                _, out = jax.lax.scan(step, 0, xs)
                rows.append(out.reshape((-1, 2)))
        if not rows:
            return jnp.zeros((0, 2), jnp.uint32)
        return jnp.concatenate(rows, axis=0)

    def f(decs):
        return emit(prog, (), lambda q: decs[cidx[q]])

    return f, cpaths


def eval_term(t, roots):
    k = t["t"]
    if k == "root":
        return roots[t["r"]]
    if k == "L":
        return jax.random.split(eval_term(t["k"], roots))[0]
    if k == "R":
        return jax.random.split(eval_term(t["k"], roots))[1]
    if k == "F":
        return jax.random.fold_in(eval_term(t["k"], roots), t["i"])
    raise ValueError(k)


def predicted_rows(sites, roots):
    """the rows the Impl model's key terms predict: bits(term)[lane] (lane 0 of a scalar site is bits(key, (2,)))."""
    out = []
    by_term = {}
    for s in sites:
        by_term.setdefault(repr(s["term"]), []).append(s)
    for s in sites:
        group = by_term[repr(s["term"])]
        key = eval_term(s["term"], roots)
        if len(group) == 1:
            out.append(np.asarray(_bits(key)))
        else:
            out.append(np.asarray(_bits(key, (len(group),)))[s["lane"]])
    return out
