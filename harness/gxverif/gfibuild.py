"""GFIPrograms.tla records (exported by TLC as gf.json) -> real genjax generative functions.

Every built generative function takes (script, arg): `script` carries the scripted outcomes of its sample sites
(argument-carried scripts, DESIGN.md 3.4), `arg` is the model argument of the spec. Calling conventions:
   dist / fn / vmap : gf(script, arg)
   scan             : gf(init_carry, (script_xs, xs))          (arg = (init_carry, xs))
   cond             : gf(check, script, branch_arg)            (arg = (check, branch_arg))
The builder is a fold over the AST and contains no expected values.
"""
from . import jaxcompat  # noqa: F401
import jax
import jax.numpy as jnp
import numpy as np

from genjax import gen, Scan, Cond, const
from genjax.core import distribution
from genjax.pjax import wrap_sampler, wrap_logpdf

LN2 = float(np.log(2.0))
K = 3
ROWS = jnp.array([[-(1.0 if v == m else 2.0) * LN2 for v in range(K)] for m in range(K)], dtype=jnp.float32)


def _mk_dist(off, soff):
    def sampler(key, script, par, sample_shape=()):
        v = (jnp.asarray(script) + soff) % K
        return jnp.broadcast_to(v, tuple(sample_shape) + jnp.shape(v))

    def logpdf(x, script, par):
        return ROWS[(par + off) % K, x]

    return distribution(wrap_sampler(sampler, name=f"tri{off}{soff}"), wrap_logpdf(logpdf), name=f"tri{off}{soff}")


def _mk_dist_event(off, soff):
    """the tri-distribution over a VECTOR value with a scalar log density (event-shaped: the last axis is the event axis)."""
    def sampler(key, script, par, sample_shape=()):
        v = (jnp.asarray(script) + soff) % K
        return jnp.broadcast_to(v, tuple(sample_shape) + jnp.shape(v))

    def logpdf(x, script, par):
        return jnp.sum(ROWS[(par + off) % K, x], axis=-1)

    return distribution(wrap_sampler(sampler, name=f"trie{off}{soff}"), wrap_logpdf(logpdf), name=f"trie{off}{soff}")


def _mk_dist_event_real(off):
    """the event-shaped tri-distribution with REAL randomness (one categorical per coordinate, one summed log density)."""
    from genjax import categorical

    def sampler(script, par, **kw):
        return categorical.sample(ROWS[(par + off) % K], **kw)

    def logpdf(x, script, par):
        return jnp.sum(categorical.logpdf(x, ROWS[(par + off) % K]), axis=-1)

    return distribution(sampler, logpdf, name=f"trie{off}real")


def ev(e, arg, env):
    op = e[0]
    if op == "arg":
        return arg
    if op == "val":
        return env[e[1]]
    if op == "const":
        return jnp.asarray(e[1], dtype=jnp.int32)
    if op == "add":
        return (ev(e[1], arg, env) + ev(e[2], arg, env)) % K
    if op == "eq":
        return ev(e[1], arg, env) == ev(e[2], arg, env)
    if op == "pair":
        return (ev(e[1], arg, env), ev(e[2], arg, env))
    if op == "seq":
        return jax.tree.map(lambda *xs: jnp.stack(xs), ev(e[1], arg, env), ev(e[2], arg, env))
    if op == "fst":
        return ev(e[1], arg, env)[0]
    if op == "snd":
        return ev(e[1], arg, env)[1]
    if op == "sum":
        return jnp.sum(ev(e[1], arg, env)) % K
    raise ValueError(op)


def _mk_dist_real(off):
    """the same tri-distribution with REAL randomness: genjax.categorical at dyadic logits (script ignored)."""
    from genjax import categorical

    def sampler(script, par, **kw):
        return categorical.sample(ROWS[(par + off) % K], **kw)

    def logpdf(x, script, par):
        return categorical.logpdf(x, ROWS[(par + off) % K])

    return distribution(sampler, logpdf, name=f"tri{off}real")


class Builder:
    def __init__(self, gf_table, real=False):
        self.GF = gf_table
        self._cache = {}
        self.real = real

    def leaf_paths(self, name, path=()):
        G = self.GF[name]
        k = G["kind"]
        if k == "dist":
            return [path]
        if k == "fn":
            return [q for st in G["sites"] for q in self.leaf_paths(st["callee"], path + (st["addr"],))]
        if k in ("vmap", "scan"):
            return [q for i in range(G["n"]) for q in self.leaf_paths(G["callee"], path + (str(i + 1),))]
        return self.leaf_paths(G["t"], path)

    def kind(self, name):
        return self.GF[name]["kind"]

    def build(self, name, role="plain"):
        key = (name, role)
        if key in self._cache:
            return self._cache[key]
        G = self.GF[name]
        k = G["kind"]
        if k == "dist":
            out = _mk_dist_real(G["off"]) if self.real else _mk_dist(G["off"], G["soff"])
        elif k == "fn":
            out = self._mk_fn(name, G, role)
        elif k == "vmap" and G.get("as_site") and G.get("as_event"):
            # an event-shaped address: vector value, ONE log density
            C = self.GF[G["callee"]]
            out = _mk_dist_event_real(C["off"]) if self.real else _mk_dist_event(C["off"], C["soff"])
        elif k == "vmap" and G.get("as_site"):
            # an array-valued address: the callee distribution called once with vector parameters
            out = self.build(G["callee"])
        elif k == "vmap" and self.kind(G["callee"]) == "cond":
            out = self.build(G["callee"]).vmap(in_axes=(0, 0, 0))          # (check, script, branch arg), all per lane
        elif k == "vmap":
            callee = self.build(G["callee"])
            assert self.kind(G["callee"]) in ("dist", "fn")
            if G.get("intaxes"):
                out = callee.vmap()                                            # default in_axes: the bare int 0
            elif G.get("kwarg"):
                out = callee.vmap(in_axes=(0,))                                # the argument travels as a keyword (shared by the lanes)
            else:
                out = callee.vmap(in_axes=(0, None if G["bcast"] else 0))
        elif k == "scan":
            out = Scan(self.build(G["callee"], role="scan_kw" if G.get("kwstep") else "scan"), length=const(G["n"]))
        elif k == "cond":
            out = Cond(self.build(G["t"]), self.build(G["f"]))
        else:
            raise ValueError(k)
        self._cache[key] = out
        return out

    def call_args(self, name, script, arg):
        k = self.kind(name)
        if k == "scan":
            return (arg[0], (script, arg[1]))
        if k == "cond" or (k == "vmap" and self.kind(self.GF[name]["callee"]) == "cond"):
            return (arg[0], script, arg[1])
        return (script, arg)

    def _mk_fn(self, name, G, role):
        sites, ret = G["sites"], G["ret"]
        B = self

        def body(script, arg):
            env = {}
            for st in sites:
                a = ev(st["arg"], arg, env)
                callee = B.build(st["callee"])
                sub = script[st["addr"]]
                cargs = B.call_args(st["callee"], sub, a)
                if st["kw"] and (B.kind(st["callee"]) == "fn" or B.GF[st["callee"]].get("kwarg")):
                    env[st["addr"]] = callee(cargs[0], arg=cargs[1]) @ st["addr"]
                elif st["kw"] and B.GF[st["callee"]].get("kwstep"):
                    env[st["addr"]] = callee(cargs[0], cargs[1], bump=1) @ st["addr"]
                elif st["kw"] and B.kind(st["callee"]) == "cond":
                    # keyword arguments through a combinator: Cond forwards them to both branches
                    env[st["addr"]] = callee(cargs[0], cargs[1], arg=cargs[2]) @ st["addr"]
                else:
                    env[st["addr"]] = callee(*cargs) @ st["addr"]
            return ev(ret, arg, env)

        if role == "scan":
            def src(carry, sx):
                return body(sx[0], (carry, sx[1]))
        elif role == "scan_kw":
            # a step function with a keyword parameter (default 0): the specification's step is the one with bump = 1, which the
            # parent passes by keyword; a Scan method that drops the keyword runs the step with the default
            def src(carry, sx, bump=0):
                return body(sx[0], (carry, sx[1] + bump - 1))
        else:
            def src(script, arg):
                return body(script, arg)
        src.__name__ = f"{name}_{role}"
        return gen(src)

    # ---- spec values -> real values --------------------------------------------------------------------
    def arg_to_real(self, name, a):
        """Top-level argument of program `name` (spec value) -> real value."""
        k = self.kind(name)
        if k == "cond":
            return (jnp.asarray(bool(a[0])), jnp.asarray(a[1], dtype=jnp.int32))
        if k == "scan":
            return (jnp.asarray(a[0], dtype=jnp.int32), jnp.asarray(a[1], dtype=jnp.int32))
        return jnp.asarray(a, dtype=jnp.int32)

    def struct(self, name, path, leaf, partial):
        """AST-directed: {leaf path (tuple of str) -> int} -> nested real structure for program `name`.
        partial=False: every leaf present (missing -> 0) ; partial=True: only paths present (constraints), None if empty."""
        G = self.GF[name]
        k = G["kind"]
        if k == "dist":
            if path in leaf:
                return jnp.asarray(leaf[path], dtype=jnp.int32)
            return None if partial else jnp.asarray(0, dtype=jnp.int32)
        if k == "fn":
            d = {}
            for st in G["sites"]:
                sub = self.struct(st["callee"], path + (st["addr"],), leaf, partial)
                if sub is not None:
                    d[st["addr"]] = sub
            return d if (d or not partial) else None
        if k in ("vmap", "scan"):
            subs = [self.struct(G["callee"], path + (str(i + 1),), leaf, partial) for i in range(G["n"])]
            if any(s is None for s in subs):
                assert all(s is None for s in subs), "constraint not lane-closed"
                return None
            return jax.tree.map(lambda *xs: jnp.stack(xs), *subs)
        if k == "cond":
            return self.struct(G["t"], path, leaf, partial)
        raise ValueError(k)

    def leaves(self, name, path, real):
        """AST-directed inverse: nested real structure (choices / discard) -> {leaf path -> int}. None parts are skipped."""
        if real is None:
            return {}
        G = self.GF[name]
        k = G["kind"]
        if k == "dist":
            return {path: int(np.asarray(real))}
        if k == "fn":
            out = {}
            for st in G["sites"]:
                if isinstance(real, dict) and st["addr"] in real:
                    out.update(self.leaves(st["callee"], path + (st["addr"],), real[st["addr"]]))
            return out
        if k in ("vmap", "scan"):
            out = {}
            if not jax.tree.leaves(real):
                return out
            for i in range(G["n"]):
                out.update(self.leaves(G["callee"], path + (str(i + 1),), jax.tree.map(lambda x: x[i], real)))
            return out
        if k == "cond":
            return self.leaves(G["t"], path, real)
        raise ValueError(k)

    def ret_to_spec(self, r):
        """real return value -> spec value (ints / nested tuples)."""
        if isinstance(r, tuple):
            return tuple(self.ret_to_spec(x) for x in r)
        a = np.asarray(r)
        if a.ndim == 0:
            return int(a)
        return tuple(self.ret_to_spec(x) for x in a)
