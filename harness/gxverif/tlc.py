"""Thin runner around TLC (tla2tools 1.8): run a module/config, parse the statistics, load dumped JSON."""
import json
import os
import re
import shutil
import subprocess
import time

VERIF = os.environ.get("VERIF_ROOT", "/verif")
SPECS = os.path.join(VERIF, "specs")
OUT = os.path.join(VERIF, "out")
JAR = "/opt/veriftools/tla/tla2tools.jar:/opt/veriftools/tla/CommunityModules-deps.jar"


class TLCError(Exception):
    pass


class TLCResult:
    def __init__(self, stdout, wall, outdir):
        self.stdout = stdout
        self.wall = wall
        self.outdir = outdir
        m = re.search(r"(\d+) states generated, (\d+) distinct states found", stdout)
        self.generated = int(m.group(1)) if m else 0
        self.distinct = int(m.group(2)) if m else 0
        m = re.search(r"The depth of the complete state graph search is (\d+)", stdout)
        self.depth = int(m.group(1)) if m else 0
        self.invariant_violated = None
        m = re.search(r"Invariant (\S+) is violated", stdout)
        if m:
            self.invariant_violated = m.group(1)
        m2 = re.search(r"Action property (\S+) is violated", stdout)
        if m2:
            self.invariant_violated = m2.group(1)
        self.postcondition_failed = "POSTCONDITION" in stdout and "violated" in stdout.lower() and not m
        self.error = bool(re.search(r"^Error:", stdout, re.M)) and not self.invariant_violated
        self.completed = "Model checking completed. No error has been found." in stdout
        # per-action coverage (with -coverage 1): "<Action line .. of module M>: distinct:total"
        self.coverage = {}
        for am in re.finditer(r"^<(\w+) line \d+, col \d+ to line \d+, col \d+ of module (\w+)>: (\d+):(\d+)", stdout, re.M):
            name = am.group(1)
            self.coverage[name] = self.coverage.get(name, 0) + int(am.group(4))

    def printed(self):
        """Values printed with PrintT, one per line, as raw strings."""
        return [l for l in self.stdout.splitlines() if l.startswith("<<") or l.startswith("\"")]


def run(module, cfg, *, workers=1, simulate=None, depth=None, timeout=900, env=None, coverage=False,
        tag=None, seed=None, extra=(), allow_violation=False, deadlock=False):
    """Run TLC on specs/<module>.tla with specs/<cfg>. Scratch goes to /verif/out/<tag> and is removed."""
    tag = tag or f"{module}_{os.getpid()}_{int(time.time()*1000)%100000}"
    outdir = os.path.join(OUT, tag)
    shutil.rmtree(outdir, ignore_errors=True)
    os.makedirs(outdir, exist_ok=True)
    cmd = ["java", "-XX:+UseParallelGC", "-Xss64m", "-Xmx10g", "-cp", JAR, "tlc2.TLC", "-workers", str(workers), "-metadir",
           os.path.join(outdir, "meta"), "-noGenerateSpecTE", "-config", os.path.join(SPECS, cfg)]
    if not deadlock:
        cmd += ["-deadlock"]
    if coverage:
        cmd += ["-coverage", "1"]
    if simulate:
        cmd += ["-simulate", simulate]
    if depth:
        cmd += ["-depth", str(depth)]
    if seed is not None:
        cmd += ["-seed", str(seed)]
    cmd += list(extra)
    cmd += [os.path.join(SPECS, module + ".tla")]
    e = dict(os.environ)
    e["GX_OUT"] = outdir
    if env:
        e.update({k: str(v) for k, v in env.items()})
    t0 = time.time()
    try:
        p = subprocess.run(cmd, cwd=SPECS, env=e, capture_output=True, text=True, timeout=timeout)
    except subprocess.TimeoutExpired as ex:
        raise TLCError(f"TLC timeout after {timeout}s: {module}/{cfg}") from ex
    res = TLCResult(p.stdout + p.stderr, time.time() - t0, outdir)
    res.returncode = p.returncode
    if not allow_violation and not res.completed and not simulate:
        tail = "\n".join(res.stdout.splitlines()[-60:])
        raise TLCError(f"TLC did not complete cleanly on {module}/{cfg} (rc={p.returncode}):\n{tail}")
    return res


def load_json(res, name):
    with open(os.path.join(res.outdir, name)) as f:
        return json.load(f)


def cleanup(res):
    shutil.rmtree(res.outdir, ignore_errors=True)


def sany(module):
    p = subprocess.run(["java", "-cp", JAR, "tla2sany.SANY", os.path.join(SPECS, module + ".tla")], cwd=SPECS,
                       capture_output=True, text=True)
    ok = p.returncode == 0 and "Semantic errors" not in p.stdout and "Parse Error" not in p.stdout \
        and "*** Errors" not in p.stdout
    return ok, p.stdout
