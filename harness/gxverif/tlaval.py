"""Parser for TLA+ values as printed by TLC (state dumps, -simulate trace files, PrintT).

records  [a |-> 1, b |-> "x"]      -> dict
functions (k1 :> v1 @@ k2 :> v2)   -> dict (keys: str, int or tuple)
sequences <<1, 2>>                 -> tuple
sets      {1, 2}                   -> frozenset when hashable, else tuple tagged list
strings, integers, TRUE/FALSE
"""
import re

_TOK = re.compile(r'\s*(\|->|:>|@@|<<|>>|\[|\]|\(|\)|\{|\}|,|"(?:[^"\\]|\\.)*"|-?\d+|[A-Za-z_][A-Za-z0-9_]*)')


def tokenize(s):
    out, i, n = [], 0, len(s)
    while i < n:
        m = _TOK.match(s, i)
        if not m:
            if s[i:].strip() == "":
                break
            raise ValueError(f"cannot tokenize at {s[i:i+40]!r}")
        out.append(m.group(1))
        i = m.end()
    return out


class _P:
    def __init__(self, toks):
        self.t, self.i = toks, 0

    def peek(self):
        return self.t[self.i] if self.i < len(self.t) else None

    def eat(self, x=None):
        tok = self.t[self.i]
        if x is not None and tok != x:
            raise ValueError(f"expected {x} got {tok} at {self.i}")
        self.i += 1
        return tok

    def value(self):
        tok = self.peek()
        if tok == "[":
            self.eat()
            d = {}
            if self.peek() == "]":
                self.eat()
                return d
            while True:
                k = self.eat()
                self.eat("|->")
                d[k] = self.value()
                if self.peek() == ",":
                    self.eat()
                    continue
                self.eat("]")
                return d
        if tok == "(":
            self.eat()
            d = {}
            while True:
                k = self.value()
                self.eat(":>")
                d[_key(k)] = self.value()
                if self.peek() == "@@":
                    self.eat()
                    continue
                self.eat(")")
                return d
        if tok == "<<":
            self.eat()
            xs = []
            while self.peek() != ">>":
                xs.append(self.value())
                if self.peek() == ",":
                    self.eat()
            self.eat(">>")
            return tuple(xs)
        if tok == "{":
            self.eat()
            xs = []
            while self.peek() != "}":
                xs.append(self.value())
                if self.peek() == ",":
                    self.eat()
            self.eat("}")
            return SetVal(xs)
        self.eat()
        if tok[0] == '"':
            return tok[1:-1].replace('\\"', '"').replace("\\\\", "\\")
        if tok == "TRUE":
            return True
        if tok == "FALSE":
            return False
        if re.fullmatch(r"-?\d+", tok):
            return int(tok)
        return tok  # model value / identifier


class SetVal(list):
    """A TLA+ set (kept as a list; elements may be unhashable dicts)."""


def _key(k):
    if isinstance(k, list):
        return tuple(k)
    return k


def parse(s):
    p = _P(tokenize(s))
    v = p.value()
    if p.peek() is not None:
        raise ValueError(f"trailing tokens: {p.t[p.i:p.i+5]}")
    return v


_STATE = re.compile(r"^State (\d+):", re.M)


_STATE_LINE = re.compile(r"^State \d+:")


def iter_dump_blocks(path):
    """Stream the raw text of every state of a TLC -dump file (dumps of the larger configurations have millions of states)."""
    buf = None
    with open(path) as f:
        for line in f:
            if _STATE_LINE.match(line):
                if buf is not None:
                    yield "".join(buf)
                buf = []
            elif buf is not None:
                buf.append(line)
    if buf is not None:
        yield "".join(buf)


def parse_state_block(body, only=None):
    st = {}
    for chunk in re.split(r"^/\\ ", body, flags=re.M)[1:]:
        name, _, val = chunk.partition(" = ")
        name = name.strip()
        if only is not None and name not in only:
            continue
        st[name] = parse(val)
    return st


def parse_dump(path, only=None):
    """Yield dicts var -> value for each state in a TLC -dump file. `only`: restrict to these variables."""
    for body in iter_dump_blocks(path):
        yield parse_state_block(body, only)


_OPEN = {"<<", "[", "(", "{"}
_CLOSE = {">>", "]", ")", "}"}


def printed_values(stdout, head):
    """Values printed by PrintT (possibly pretty-printed over several lines) whose first line starts with `head`."""
    out, buf, depth = [], None, 0
    for line in stdout.splitlines():
        if buf is None:
            if not line.startswith(head):
                continue
            buf, depth = [], 0
        buf.append(line)
        for t in tokenize(line):
            if t in _OPEN:
                depth += 1
            elif t in _CLOSE:
                depth -= 1
        if depth <= 0:
            out.append(parse("\n".join(buf)))
            buf = None
    return out


def parse_error_trace(stdout, only=None):
    """States of the counterexample TLC prints after 'Error: Invariant ... is violated' (list of dicts)."""
    i = stdout.find("Error: Invariant")
    if i < 0:
        i = stdout.find("Error: Action property")
    if i < 0:
        return []
    txt = stdout[i:]
    j = txt.find("\n\n", txt.rfind("State "))
    parts = re.split(r"^State (\d+):[^\n]*$", txt, flags=re.M)
    out = []
    for k in range(1, len(parts), 2):
        body = parts[k + 1]
        # the last state's body ends at the first blank line followed by a non-conjunct line
        m = re.search(r"\n\s*\n(?!/\\)", body)
        if m:
            body = body[:m.start()]
        st = {}
        for chunk in re.split(r"^/\\ ", body, flags=re.M)[1:]:
            name, _, val = chunk.partition(" = ")
            name = name.strip()
            if only is not None and name not in only:
                continue
            st[name] = parse(val)
        out.append(st)
    return out
