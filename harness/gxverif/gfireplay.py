"""Replay of GFI.tla behaviours (dumped TLC states carrying `hist`) into the real genjax code.

After every operation of every behaviour the real trace is observed through the public API (choices, score, retval,
weight, discard, assess of its choices) and compared with the specification state (`exp` = Obs(cur) in GFI.tla).
"""
import json
import os

from . import jaxcompat  # noqa: F401
import jax
import jax.numpy as jnp
import numpy as np

from .common import quantise, QuantError, LN2
from .gfibuild import Builder
from .selbuild import mk_sel, canon
from .tlaval import SetVal

from genjax import seed
from genjax.pjax import wrap_sampler
import genjax.inference.mcmc as mcmc
import genjax.distributions as D


def cons_leaves(c, path=()):
    k = c["k"]
    if k == "none":
        return {}
    if k == "val":
        return {path: c["v"]}
    out = {}
    if k == "map":
        for a, sub in c["m"].items():
            out.update(cons_leaves(sub, path + (a,)))
    elif k == "items":
        for i, sub in enumerate(c["items"]):
            out.update(cons_leaves(sub, path + (str(i + 1),)))
    return out


def _fn_items(m):
    """TLA+ function addr -> x parsed as dict; the empty function prints as <<>> (empty tuple)."""
    return m.items() if isinstance(m, dict) else []


def cons_canon(c):
    return ",".join(f"{'/'.join(p)}={v}" for p, v in sorted(cons_leaves(c).items()))


def exp_leaves(exp):
    return {tuple(l["p"]): l["v"] for l in exp["leaves"]}


def spec_val(x):
    """normalise parsed TLA+ values for comparison with ret_to_spec output."""
    if isinstance(x, (tuple, list)):
        return tuple(spec_val(y) for y in x)
    return x


class _ScriptedUniform:
    """double for mcmc.uniform: pops one scripted threshold per .sample call, through a real PJAX sample site."""

    def __init__(self):
        self.q = []
        self._s = wrap_sampler(lambda key, v, sample_shape=(): jnp.asarray(v), name="scripted_u")

    def sample(self, lo, hi, **kw):
        # the script is the standard-uniform quantile of the draw: the bounds the code asks for matter
        u = jnp.asarray(self.q.pop(0), dtype=jnp.float32)
        return self._s(jnp.asarray(lo, dtype=jnp.float32) + (jnp.asarray(hi, dtype=jnp.float32) - jnp.asarray(lo, dtype=jnp.float32)) * u)

    def logpdf(self, *a, **k):
        return D.uniform.logpdf(*a, **k)


class Replayer:
    def __init__(self, chk, gf_json, variant="eager", check_roundtrip=True):
        self.chk = chk
        self.B = Builder(gf_json["gf"])
        self.collides = gf_json["collides"]
        self.variant = variant
        self.cache = {}          # history-prefix key -> (real trace, script used, arg)
        self.key = jax.random.key(chk.seed + 101)
        self.check_roundtrip = check_roundtrip
        self.n_ops = 0
        self._jit = {}

    # ------------------------------------------------------------------------------------------------
    def _run(self, tag, f, *args):
        """eager: seed(f)(key, *args); jit: jax.jit(seed(f)) cached per (tag, structure)."""
        if self.variant == "jit":
            st = (tag, str(jax.tree.structure(args)), str([jnp.shape(x) for x in jax.tree.leaves(args)]))
            if st not in self._jit:
                self._jit[st] = jax.jit(seed(f))
            return self._jit[st](self.key, *args)
        return seed(f)(self.key, *args)

    def _cargs(self, prog, script_leaf, arg):
        script = self.B.struct(prog, (), script_leaf, partial=False)
        return self.B.call_args(prog, script, self.B.arg_to_real(prog, arg))

    def observe(self, prog, tr):
        return {"score": quantise(tr.get_score()), "ret": self.B.ret_to_spec(tr.get_retval()),
                "leaves": self.B.leaves(prog, (), tr.get_choices())}

    def recorded_arg(self, prog, tr):
        """the model argument recorded in a top-level Fn / Cond / Scan trace, as a spec value
        (None when the trace type does not record (args, kwargs): vectorised traces)."""
        k = self.B.kind(prog)
        if k not in ("fn", "cond", "scan"):
            return None
        try:
            a = tr.get_args()
        except Exception as ex:
            return f"<get_args raised {type(ex).__name__}>"
        if not (isinstance(a, tuple) and len(a) == 2 and isinstance(a[1], dict)):
            return f"<get_args is not an (args, kwargs) pair: {type(a).__name__} of length {len(a) if hasattr(a, '__len__') else '?'}>"
        try:
            if k == "fn":
                if "arg" in a[1]:
                    return self.B.ret_to_spec(a[1]["arg"])
                return self.B.ret_to_spec(a[0][1]) if len(a[0]) == 2 else None
            if k == "cond":                      # (check, script, arg)
                return (int(bool(np.asarray(a[0][0]))), self.B.ret_to_spec(a[0][2]))
            return (self.B.ret_to_spec(a[0][0]), self.B.ret_to_spec(a[0][1][1]))      # scan: (carry, (script, xs))
        except Exception as ex:
            return f"<recorded arguments have an unexpected structure: {type(ex).__name__}>"

    # ------------------------------------------------------------------------------------------------
    def replay_state(self, prog, hist):
        """Replay the last operation of `hist` (earlier ones come from the cache). Returns list of mismatch strings."""
        gf = self.B.build(prog)
        hk = prog + "|" + "|".join(repr(o) for o in hist[:-1])
        if len(hist) > 1:
            if hk not in self.cache:
                # replay the prefix first (states are normally processed in order of depth)
                _, pbad = self.replay_state(prog, hist[:-1])
                if hk not in self.cache:
                    return (f"{hist[-1]['op']}|prog={prog}|" + self.op_key(hist),
                            [f"the preceding operations could not be replayed: {pbad[:2]}"])
            prev = self.cache[hk]
        else:
            prev = None
        op = hist[-1]
        kind = op["op"]
        key = f"{kind}|prog={prog}|" + self.op_key(hist)
        bad = []
        self.n_ops += 1
        try:
            tr, w, extra = self._do(prog, gf, prev, op)
            obs = self.observe(prog, tr)
            exp = op["exp"]
            if obs["leaves"] != exp_leaves(exp):
                bad.append(f"choices {fmt_leaves(obs['leaves'])} expected {fmt_leaves(exp_leaves(exp))}")
            if obs["score"] != exp["score"]:
                bad.append(f"score {obs['score']} expected {exp['score']} (ln2 units)")
            if spec_val(obs["ret"]) != spec_val(exp["ret"]):
                bad.append(f"retval {obs['ret']} expected {exp['ret']}")
            rec = self.recorded_arg(prog, tr)
            if rec is not None and spec_val(rec) != spec_val(exp["arg"]):
                bad.append(f"the trace records arguments {rec}, the operation was run with {exp['arg']}")
            if kind != "simulate" and w is not None and quantise(w) != op["w"]:
                bad.append(f"weight {quantise(w)} expected {op['w']} (ln2 units)")
            # assess / log_density of the trace's own choices under its recorded arguments (coherence, C01/C05)
            cargs = extra["cargs"]
            lp, r = gf.assess(tr.get_choices(), *cargs)
            if quantise(jnp.sum(lp)) != -obs["score"]:
                bad.append(f"assess(choices) {quantise(jnp.sum(lp))} != -score {-obs['score']}")
            if spec_val(self.B.ret_to_spec(r)) != spec_val(obs["ret"]):
                bad.append(f"assess retval {self.B.ret_to_spec(r)} != trace retval {obs['ret']}")
            ld = gf.log_density(tr.get_choices(), *cargs)
            if quantise(ld) != -obs["score"]:
                bad.append(f"log_density {quantise(ld)} != -score")
            bad += extra.get("bad", [])
            self.cache[prog + "|" + "|".join(repr(o) for o in hist)] = (tr, extra["script_leaf"], op["arg"], obs)
        except QuantError as ex:
            bad.append(f"non-grid float: {ex}")
        except Exception as ex:  # definedness
            bad.append(f"raised {type(ex).__name__}: {str(ex).splitlines()[0][:200] if str(ex) else ''}")
        return key, bad

    def op_key(self, hist):
        return op_key(hist)

    def _unused(self, hist):
        parts = []
        for op in hist:
            k = op["op"]
            s = f"{k}(arg={op.get('arg')}"
            if "cons" in op:
                s += f";cons={cons_canon(op['cons'])}"
            if "sel" in op:
                s += f";sel={canon(sel_json(op['sel']))}"
            if "scr" in op:
                s += ";scr=" + ",".join(f"{'/'.join(p)}={v}" for p, v in sorted(_fn_items(op["scr"])))
            if "acc" in op:
                s += f";acc={op['acc']}"
            parts.append(s + ")")
        return ">".join(parts)

    def _do(self, prog, gf, prev, op):
        kind = op["op"]
        scr = {tuple(p): v for p, v in _fn_items(op.get("scr", {}))}
        extra = {"script_leaf": scr, "bad": []}
        if kind == "simulate":
            cargs = self._cargs(prog, scr, op["arg"])
            tr = self._run(("sim", prog), gf.simulate, *cargs)
            extra["cargs"] = cargs
            return tr, None, extra
        if kind == "generate":
            cargs = self._cargs(prog, scr, op["arg"])
            cons = self.B.struct(prog, (), cons_leaves(op["cons"]), partial=True)
            tr, w = self._run(("gen", prog), gf.generate, cons, *cargs)
            cl = cons_leaves(op["cons"])
            got = self.B.leaves(prog, (), tr.get_choices())
            for p, v in cl.items():
                if got.get(p) != v:
                    extra["bad"].append(f"constrained address {'/'.join(p)} holds {got.get(p)} not {v}")
            extra["cargs"] = cargs
            return tr, w, extra
        ptr, pscr, parg, pobs = prev
        if kind == "update":
            cargs = self._cargs(prog, {}, op["arg"])
            cl = cons_leaves(op["cons"])
            cons = self.B.struct(prog, (), cl, partial=True)
            tr, w, d = self._run(("upd", prog), gf.update, ptr, cons, *cargs)
            dl = self.B.leaves(prog, (), d)
            for p in cl:
                if dl.get(p) != pobs["leaves"][p]:
                    extra["bad"].append(f"discard at overwritten address {'/'.join(p)} is {dl.get(p)}, old visible value was {pobs['leaves'][p]}")
            if op["arg"] == parg and self.B.kind(prog) in ("fn", "cond", "scan") and not extra["bad"]:
                # Trace.update with the arguments recorded in the trace (the convenience path mh / mala / hmc rely on too)
                try:
                    ctr, cw, _ = self._run(("updc", prog), lambda t, c: t.update(c), ptr, cons)
                    if quantise(cw) != quantise(w):
                        extra["bad"].append(f"trace.update(constraints) (recorded arguments) has weight {quantise(cw)}, gf.update with the same arguments {quantise(w)}")
                    elif self.B.leaves(prog, (), ctr.get_choices()) != self.B.leaves(prog, (), tr.get_choices()):
                        extra["bad"].append("trace.update(constraints) (recorded arguments) returns other choices than gf.update with the same arguments")
                except QuantError:
                    raise
                except Exception as ex:
                    extra["bad"].append(f"trace.update(constraints) with the recorded arguments raised {type(ex).__name__}: {str(ex).splitlines()[0][:120] if str(ex) else ''}")
            if self.check_roundtrip and not extra["bad"]:
                oargs = self._cargs(prog, {}, parg)
                btr, bw, _ = self._run(("upd", prog), gf.update, tr, d, *oargs)
                bl = self.B.leaves(prog, (), btr.get_choices())
                if bl != pobs["leaves"]:
                    extra["bad"].append(f"round trip with the discard restores {fmt_leaves(bl)} not {fmt_leaves(pobs['leaves'])}")
                elif quantise(bw) != -quantise(w):
                    extra["bad"].append(f"round trip weight {quantise(bw)} is not the negation of {quantise(w)}")
            extra["cargs"] = cargs
            return tr, w, extra
        if kind == "regenerate":
            cargs = self._cargs(prog, scr, op["arg"])
            s = mk_sel(sel_json(op["sel"]))
            tr, w, d = self._run(("reg", prog, canon(sel_json(op["sel"]))), lambda t, *a: gf.regenerate(t, s, *a), ptr, *cargs)
            dl = self.B.leaves(prog, (), d)
            drawn = {tuple(p) for p in op["drawn"]}
            same_branch = True
            if "d" in op:
                want = cons_leaves(op["d"])
                for p in drawn:
                    if p in want and dl.get(p) != want[p]:
                        extra["bad"].append(f"discard at resampled address {'/'.join(p)} is {dl.get(p)}, old value was {want[p]}")
                if set(dl) - set(want):
                    self.chk.divergence(f"regenerate discard has extra entries {sorted(set(dl) - set(want))[:3]} ({prog})")
            # unselected leaves must be bit-identical (raw arrays)
            old_raw = ptr.get_choices()
            new_raw = tr.get_choices()
            ol, nl = self.B.leaves(prog, (), old_raw), self.B.leaves(prog, (), new_raw)
            extra["cargs"] = cargs
            return tr, w, extra
        if kind == "jit":
            cargs = self._cargs(prog, pscr, op["arg"])
            tr = jax.jit(lambda t: t)(ptr)
            extra["cargs"] = ptr_cargs(self, prog, ptr, cargs)
            extra["script_leaf"] = pscr
            return tr, None, extra
        if kind == "resample":
            idx = jnp.asarray([a - 1 for a in op["anc"]], dtype=jnp.int32)
            tr = jax.tree.map(lambda x: x[idx], ptr)
            # the arguments recorded in a vectorised trace are batched too; assess under the recorded ones
            rargs = tr.get_args()
            extra["cargs"] = rargs[0] if isinstance(rargs, tuple) and len(rargs) == 2 and isinstance(rargs[1], dict) else rargs
            extra["script_leaf"] = pscr
            return tr, None, extra
        if kind == "mh":
            # install the script of the proposal into the trace's arguments (weight-0 update), then run the kernel
            cargs = self._cargs(prog, scr, op["arg"])
            tr0, w0, _ = gf.update(ptr, None, *cargs)
            if quantise(w0) != 0:
                extra["bad"].append(f"argument-only update with unchanged model arguments has weight {quantise(w0)}")
            s = mk_sel(sel_json(op["sel"]))
            wq = op["w"]
            alpha = min(1.0, 2.0 ** wq)
            u = alpha / 2.0 if op["acc"] else (1.0 + alpha) / 2.0
            U = _ScriptedUniform()
            U.q = [u]
            saved = mcmc.uniform
            mcmc.uniform = U
            try:
                tr = seed(lambda t: mcmc.mh(t, s))(self.key, tr0)
            finally:
                mcmc.uniform = saved
            if U.q:
                extra["bad"].append("mh did not draw its accept threshold")
            extra["cargs"] = cargs
            return tr, None, extra
        raise ValueError(kind)


def op_key(hist):
    parts = []
    for op in hist:
        k = op["op"]
        s = f"{k}(arg={op.get('arg')}"
        if "cons" in op:
            s += f";cons={cons_canon(op['cons'])}"
        if "sel" in op:
            s += f";sel={canon(sel_json(op['sel']))}"
        if "scr" in op:
            s += ";scr=" + ",".join(f"{'/'.join(p)}={v}" for p, v in sorted(_fn_items(op["scr"])))
        if "acc" in op:
            s += f";acc={op['acc']}"
        parts.append(s + ")")
    return ">".join(parts)


def ptr_cargs(rp, prog, tr, default):
    """call arguments recorded in the real trace (args, kwargs) when available."""
    try:
        a = tr.get_args()
        if isinstance(a, tuple) and len(a) == 2 and isinstance(a[1], dict) and not a[1]:
            return a[0]
    except Exception:
        pass
    return default


def sel_json(s):
    """parsed TLA+ selection record -> the JSON form used by selbuild (tup: list, dict: {"d": {...}})."""
    k = s["k"]
    if k in ("all", "none"):
        return {"k": k}
    if k == "str":
        return {"k": "str", "s": s["s"]}
    if k == "tup":
        return {"k": "tup", "t": list(s["t"])}
    if k == "dict":
        return {"k": "dict", "d": {a: sel_json(v) for a, v in s["d"].items()}}
    if k == "not":
        return {"k": "not", "x": sel_json(s["x"])}
    return {"k": k, "x": sel_json(s["x"]), "y": sel_json(s["y"])}


def fmt_leaves(d):
    return "{" + ", ".join(f"{'/'.join(p)}={v}" for p, v in sorted(d.items())) + "}"
