"""Entry point: python -m gxverif.run <id> <tier>."""
import importlib
import sys

from .common import main_wrapper


def main():
    pid, tier = sys.argv[1], (sys.argv[2] if len(sys.argv) > 2 else "quick")
    mod = importlib.import_module(f"gxverif.checks.{pid.lower()}")
    return mod.run(tier, sys.argv[3:])


if __name__ == "__main__":
    main_wrapper(main)
