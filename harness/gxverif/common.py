"""Shared check plumbing: verdicts, known findings, evidence files, quantisation."""
import json
import math
import os
import sys
import time
import traceback

VERIF = os.environ.get("VERIF_ROOT", "/verif")
LN2 = math.log(2.0)
TOL = 2e-4


class MachineryError(Exception):
    """The harness (not the code under test) failed: exit 2."""


def quantise(x, unit=LN2, tol=TOL):
    """float -> integer multiple of `unit`; raises QuantError when x is not within tol of the grid."""
    r = float(x) / unit
    k = round(r)
    if not (abs(r - k) <= tol):
        raise QuantError(f"value {float(x)!r} is not an integer multiple of {unit:.6g} (ratio {r:.6f})")
    return int(k)


class QuantError(Exception):
    pass


def load_known():
    p = os.path.join(VERIF, "known_findings.json")
    if not os.path.exists(p):
        return []
    with open(p) as f:
        return json.load(f)


class Check:
    """One run of one property's check. Collects coverage, violations, writes evidence, decides exit code."""

    def __init__(self, pid, tier, level="model_checking"):
        self.pid = pid
        self.tier = tier
        self.level = level
        self.seed = int(os.environ.get("VERIF_SEED", "0") or 0)
        self.t0 = time.time()
        self.cov = {"states": 0, "transitions": 0, "traces_validated_against_impl": 0, "samples": [],
                    "evaluations": 0, "distinct_nontrivial": 0, "rule": "", "tlc_runs": [], "binding_demo": []}
        self.assumptions = [
            "harness-side JAX 0.7->0.11 compatibility layer (gxverif/jaxcompat.py) is faithful "
            "(self-test: the 288 runnable upstream tests pass under it)",
            "float32 results are mapped to the exact model domain by rounding with tolerance 2e-4 grid units",
        ]
        self.violations = []   # dicts: key, what, replay
        self.known_hit = []
        self.divergences = []
        self._known = [k for k in load_known() if k.get("property") == pid and k.get("status") == "open"]
        self._distinct = set()

    # --- coverage -----------------------------------------------------------------------------
    def add_tlc(self, res, name):
        self.cov["states"] += res.distinct
        self.cov["transitions"] += res.generated
        self.cov["tlc_runs"].append({"cfg": name, "distinct_states": res.distinct, "states_generated": res.generated,
                                     "depth": res.depth, "wall_s": round(res.wall, 2),
                                     "action_coverage": res.coverage})

    def case(self, key, nontrivial=True):
        """Count one evaluated case against the implementation; key identifies distinctness."""
        self.cov["evaluations"] += 1
        if self.cov["evaluations"] % 150 == 0 and "jax" in sys.modules:
            # long runs compile thousands of executables in one process; XLA then fails to map memory for the next one
            # ("LLVM ERROR: Unable to allocate section memory", or a crash inside the compiler): drop finished ones
            sys.modules["jax"].clear_caches()
        if nontrivial and key is not None:
            self._distinct.add(key if isinstance(key, (str, int, tuple)) else json.dumps(key, sort_keys=True, default=str))

    def validated(self, n=1):
        self.cov["traces_validated_against_impl"] += n

    def sample(self, obj, limit=6):
        if len(self.cov["samples"]) < limit:
            self.cov["samples"].append(obj)

    # --- verdicts -----------------------------------------------------------------------------
    def violation(self, key, what, detail=None):
        """Report a contradiction between the Contract and the real code for the input identified by `key`."""
        for k in self._known:
            if k["key"] == key:
                if key not in [h["key"] for h in self.known_hit]:
                    self.known_hit.append({"key": key, "what": k.get("what", what)})
                return False
        if any(v["key"] == key for v in self.violations):
            return True
        rp = os.path.join(VERIF, "out", "replay")
        os.makedirs(rp, exist_ok=True)
        safe = "".join(c if c.isalnum() or c in "-_." else "_" for c in key)[:150]
        path = os.path.join(rp, f"{self.pid}_{safe}.json")
        with open(path, "w") as f:
            json.dump({"property": self.pid, "key": key, "what": what, "detail": detail}, f, indent=1, default=str)
        self.violations.append({"key": key, "what": what, "replay": path})
        return True

    def divergence(self, what):
        if len(self.divergences) < 50:
            self.divergences.append(what)

    def finish(self):
        wall = time.time() - self.t0
        self.cov["distinct_nontrivial"] = len(self._distinct)
        self.cov["exhaustive"] = self.cov.get("exhaustive", False)
        ev = {
            "property_id": self.pid, "tier": self.tier, "seed": self.seed, "level": self.level,
            "coverage": self.cov, "assumptions": self.assumptions, "wall_s": round(wall, 2),
            "violations": len(self.violations),
            "violation_keys": [v["key"] for v in self.violations][:50],
            "known_findings_hit": self.known_hit,
            "divergences_impl_model_vs_code": self.divergences,
        }
        if not self.cov["samples"]:
            self.cov["samples"] = ["(no sample recorded)"]
        # /verif/evidence describes runs against /repo itself; runs against another tree (seeded changes: REPO_ROOT set) go to out/
        evdir = os.path.join(VERIF, "evidence") if os.environ.get("REPO_ROOT", "/repo") == "/repo" else os.path.join(VERIF, "out", "evidence_other_tree")
        evdir = os.environ.get("GX_EVIDENCE_DIR", evdir)          # development runs that must not touch /verif/evidence
        os.makedirs(evdir, exist_ok=True)
        with open(os.path.join(evdir, f"{self.pid}.json"), "w") as f:
            json.dump(ev, f, indent=1, default=str)
        for h in self.known_hit:
            print(f"KNOWN-FINDING: property={self.pid} {h['key']} :: {h['what']}")
        for v in self.violations[:20]:
            print(f"VIOLATION property={self.pid} replay={v['replay']}")
            print(f"  what: {v['what']}")
        print(f"[{self.pid}/{self.tier}] states={self.cov['states']} evaluations={self.cov['evaluations']} "
              f"distinct={self.cov['distinct_nontrivial']} validated={self.cov['traces_validated_against_impl']} "
              f"violations={len(self.violations)} known={len(self.known_hit)} wall={wall:.1f}s")
        return 1 if self.violations else 0


def main_wrapper(fn):
    """Run a check function; exit 0/1 by verdict, 2 on machinery failure."""
    try:
        rc = fn()
    except SystemExit:
        raise
    except BaseException:
        traceback.print_exc()
        print("MACHINERY-FAILURE (exit 2)")
        sys.exit(2)
    sys.exit(rc)
