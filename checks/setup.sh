#!/bin/sh
# Offline setup: nothing to build; sanity-check the tools and parse every TLA+ module.
set -e
cd "$(dirname "$0")/.."
mkdir -p out evidence specs/gen
java -version 2>&1 | head -1
/venv/bin/python -c "import jax; print('jax', jax.__version__)"
cd specs
for f in *.tla; do
  java -cp /opt/veriftools/tla/tla2tools.jar:/opt/veriftools/tla/CommunityModules-deps.jar tla2sany.SANY "$f" > ../out/sany.log 2>&1 || { cat ../out/sany.log; exit 1; }
done
echo setup ok
