#!/bin/sh
# usage: checks/check.sh <property id> <quick|thorough> [--replay file]
# Imports genjax straight from /repo's working tree (src layout), under the harness-side compat layer.
set -u
ID="$1"; TIER="${2:-quick}"; shift; shift 2>/dev/null || true
HERE="$(cd "$(dirname "$0")/.." && pwd)"
export VERIF_ROOT="$HERE"
export VERIF_TIER="$TIER"
export REPO_ROOT="${REPO_ROOT:-/repo}"
export PYTHONPATH="$HERE/harness:$REPO_ROOT/src"
export PYTHONHASHSEED=0
export JAX_PLATFORMS=cpu
export GENJAX_VERIF=1
export TF_CPP_MIN_LOG_LEVEL=3
export PYTHONDONTWRITEBYTECODE=1
exec /venv/bin/python -m gxverif.run "$ID" "$TIER" "$@"
