#!/bin/sh
# quick TLC runner for development: tools/t.sh Module cfg [workers]
cd /verif && PYTHONPATH=harness timeout ${T:-280} /venv/bin/python -c "
import sys
from gxverif import tlc
r = tlc.run('$1','$2',workers=int('${3:-16}'),timeout=${T:-280}-10,allow_violation=True,coverage=bool(int("${COV:-0}"))); print(r.completed, 'distinct',r.distinct, 'gen',r.generated, r.invariant_violated, round(r.wall,1), r.coverage)
tlc.cleanup(r)
if not r.completed: print('\n'.join([l for l in r.stdout.splitlines() if not l.startswith(('Parsing','Semantic proc','Linting'))][-${L:-40}:]))"
