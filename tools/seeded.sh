#!/bin/sh
# usage: tools/seeded.sh <worktree-id> <name> <check ids...>
# Confirms a sub-agent's seeded change and runs checks against it, on private copies of /repo's source tree (no git state is
# shared with the agents' worktrees):   /tmp/wt/apply_<name>/orig = /repo HEAD    /tmp/wt/apply_<name>/chg = the same + patch.diff
set -u
WT=${WTROOT:-/tmp/wt}/$1; NAME=$2; shift; shift
OUT=/verif/seeded/$NAME
A=${WTROOT:-/tmp/wt}/apply_$NAME
mkdir -p $OUT; rm -rf $A; mkdir -p $A/orig $A/chg
cp $WT/_seeded/patch.diff $WT/_seeded/demo.py $OUT/ 2>/dev/null
cp $WT/_seeded/notes.md $OUT/notes.md 2>/dev/null
# a change written against an older /repo HEAD that no longer applies is ported by hand (same mutation, current context)
if [ -f $WT/_seeded/patch_ported.diff ]; then cp $OUT/patch.diff $OUT/patch_original.diff; cp $WT/_seeded/patch_ported.diff $OUT/patch.diff; fi
git -C /repo archive HEAD src tests | tar -x -C $A/orig
git -C /repo archive HEAD src tests | tar -x -C $A/chg
(cd $A/chg && patch -p1 < $OUT/patch.diff > $OUT/apply.log 2>&1) || { echo "PATCH DOES NOT APPLY"; cat $OUT/apply.log; exit 3; }
if diff -rq $A/orig/src $A/chg/src > /dev/null; then echo "PATCH CHANGED NOTHING"; exit 3; fi
run_demo() { (cd $A/$1 && PYTHONPATH=/tmp/shimdir:$A/$1/src JAX_PLATFORMS=cpu timeout 1500 /venv/bin/python $OUT/demo.py > $OUT/demo_$1.log 2>&1; echo $?); }
ORIG=$(run_demo orig)
CHG=$(run_demo chg)
echo "demo: original exit=$ORIG changed exit=$CHG"
RES=""
for c in "$@"; do
  REPO_ROOT=$A/chg timeout 3000 /verif/checks/check.sh $c quick > $OUT/check_$c.log 2>&1; rc=$?
  n=$(grep -c "^VIOLATION" $OUT/check_$c.log)
  echo "check $c: exit=$rc violations=$n"; grep "^VIOLATION" -A1 $OUT/check_$c.log | grep "what:" | head -2 | cut -c1-220
  RES="$RES $c:$rc:$n"
done
echo "$ORIG $CHG$RES" > $OUT/result.txt
rm -rf $A
