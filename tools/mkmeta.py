#!/venv/bin/python
"""Writes /verif/seeded/<name>/meta.json from the confirmation runs (result.txt, check logs) and the table below."""
import json
import os
import re

S = "/verif/seeded"
INFO = {
    "C01_cond_assess_kwargs": dict(property="C01", change="Cond.assess no longer forwards keyword arguments to the False branch",
        needs="a Cond called with keyword arguments, condition False (silent when the branch has a default; loud TypeError otherwise)",
        first_result="MISSED by the first C01 check (no keyword arguments reached a combinator in the corpus)",
        strengthening="GFIPrograms.tla: program fa passes its argument to the Cond by keyword (SiteKw); the recorder reports exceptions of the code under test as violations"),
    "C02_cond_generate_score_weight": dict(property="C02", change="Cond.generate returns -score of the visible branch instead of the branch's generate weight",
        needs="a Cond sub-call constrained on a strict subset of the visible branch's addresses",
        first_result="MISSED by the first C02 quick tier (the only Cond with two-address branches, program fa, was in the thorough corpus only)",
        strengthening="fa moved into the C02 quick corpus"),
    "C03_cond_discard_new_check": dict(property="C03", change="Cond.update selects the discard with the NEW condition",
        needs="an update that flips the condition of a Cond whose hidden branch holds different values (simulated / partially constrained trace); discard or round trip inspected",
        first_result="caught", strengthening=""),
    "C04_regen_drops_subsel": dict(property="C04", change="Fn's Regenerate handler drops the remaining selection when the hit flag is False",
        needs="a complement of a hierarchical selection (e.g. ~sel((sub, x))) over a model with a nested call at that prefix",
        first_result="caught", strengthening=""),
    "C05_regen_records_old_args": dict(property="C05", change="Fn.regenerate records the INPUT trace's arguments in the returned trace",
        needs="regenerate with new arguments, then any operation that reads the recorded arguments (Trace.update, mh, ...)",
        first_result="MISSED by the first C05/C04 checks (recorded arguments were not compared)",
        strengthening="gfireplay compares the arguments recorded in the real trace with the specification's after every operation"),
    "C06_find_site_one_level": dict(property="C06", change="the seed guard for uninterpreted equations no longer recurses into nested sub-Jaxprs",
        needs="a sampling site under TWO uninterpreted equations (checkpoint(checkpoint(.)), checkpoint(custom_jvp(.))), called eagerly under seed",
        first_result="MISSED by the first C06/C14 checks (only one level of uninterpreted nesting in the grammar / depth-2 stacks)",
        strengthening="Seed.tla: statements O(O(S)), O(J(S)), J(O(S;S)) and a custom_jvp kind J; Lowering.tla: stacks seed>X>Y and seed>X>{grad,modular_vmap}>Z for uninterpreted X,Y,Z"),
    "C07_cond_branch0_key": dict(property="C07", change="Seed hands branch 0 of a lax.cond/switch the key the interpreter continues with",
        needs="a raw lax.cond/switch under seed whose branch 0 (false branch) samples, followed by another site",
        first_result="caught", strengthening=""),
    "C08_reverse_scan": dict(property="C08", change="ModularVmap re-emits scans without the reverse flag",
        needs="lax.scan(reverse=True) inside a function run under modular_vmap / Vmap / repeat",
        first_result="MISSED by the first C08 check (no control flow inside the mapped functions)",
        strengthening="C08 runs forward / reverse scans and cond inside modular_vmap against the per-slice reference (seeded and jit)"),
    "C09_cond_regen_score_diff": dict(property="C09", change="Cond.regenerate returns the visible score difference instead of the branch regenerate weight",
        needs="mh (regenerate) with a selection that reaches a choice owned by a Cond",
        first_result="caught", strengthening=""),
    "C10_extend_partial_proposal": dict(property="C10", change="extend with a custom proposal uses -score of the new trace instead of the generate weight",
        needs="a custom extension proposal that does not propose every latent of the step model",
        first_result="MISSED by the first C10 check (the custom proposal covered every latent)",
        strengthening="SMC.tla: second latent u that no custom proposal proposes (WithU); the harness replays those pipelines"),
    "C11_lane_rb_first_axis": dict(property="C11", change="_flip_lane_rb_estimate loops over len(b) instead of the flattened lane count",
        needs="a flip_enum / flip_mvd site whose probability argument has rank >= 2 (lanes beyond the first axis contribute no tangent)",
        first_result="MISSED by the first C11 check by construction (ADEV.tla had scalar sites only); the confirmation run used the strengthened check",
        strengthening="ADEVVec.tla (vector / matrix flip sites, M = 2, 4 lanes, exact sum over all outcomes of prob * tangent) and c11.run_batched_sites"),
    "C12_resample_stale_diag_weights": dict(property="C12", change="resample draws the ancestors from diagnostic_weights instead of log_weights",
        needs="a collection whose diagnostic_weights are not the normalised log_weights (second resample, init_csmc, hand-built collection)",
        first_result="caught", strengthening=""),
    "C13_categorical_axis0_shift": dict(property="C13", change="categorical shifts the logits by their maximum over axis 0 instead of the category axis",
        needs="categorical with logits that have a leading batch axis",
        first_result="MISSED by the first C13 check (every table row had unbatched parameters)",
        strengthening="Dists.tla: rows with batched parameters (categorical logits matrix, vector normal / bernoulli); the sampler screen draws from batched logits"),
    "C14_guard_after_bind_params": dict(property="C14", change="the seed guard searches the dict returned by get_bind_params (custom_jvp's call_jaxpr already popped)",
        needs="a sampling site inside a custom_jvp / custom_vjp function, seeded",
        first_result="caught", strengthening=""),
    "C15_jvp_flag_last_operand": dict(property="C15", change="the 'no tangent' shortcut of the default JVP rule looks at the last operand only",
        needs="a primitive whose differentiable operand precedes an integer / boolean operand (dynamic index, take, clip with int bounds)",
        first_result="MISSED by the first C15 check by construction (no primitive with a trailing integer operand in the corpus); the confirmation run used the strengthened check",
        strengthening="ADEVDet.tla: operations dynidx (x[argmax x]), take21 (jnp.take with an index array), clip11 (integer bounds) with their exact dual-number semantics"),
    "C16_insel_short_circuit": dict(property="C16", change="InSel.match returns (False, NoneSel()) as soon as one operand's hit flag is False",
        needs="an intersection with the complement of a hierarchical selection (~sel((a, b)), ~sel({a: sel(b)})), matched at the prefix",
        first_result="the first quick tier would have MISSED it (depth-1 expressions over atoms without complements of hierarchical selections; the depth-2 thorough model contains it) - found by inspection, strengthened before the confirmation run",
        strengthening="Selection.tla: SmallAtoms contains not(tup(a,b)) and not(dict(a: str(b))), so depth-1 and/or range over them"),
    "C17_mvn_reparam_transpose": dict(property="C17", change="MultivariateNormalREPARAM reparameterises with eps @ L instead of L @ eps",
        needs="multivariate_normal_reparam with a non-diagonal Cholesky factor inside an expectation (full-covariance family)",
        first_result="the first C17 check would have MISSED it (scalar and mean-field families only) - found by inspection, strengthened before the confirmation run",
        strengthening="c17: 2-d Gaussian target with a full-covariance family, non-diagonal Cholesky factor, scripted noise; objective compared with log p(y, m + L eps) - log q"),
    "C18_accepts_double_burn_in": dict(property="C18", change="chain() applies the burn-in offset twice to the accept flags",
        needs="burn_in > 0 and a kernel whose accept flags vary over the steps",
        first_result="caught", strengthening=""),
    "C19_scan_merge_first_write_wins": dict(property="C19", change="_nested_dict_merge keeps the first write when a scan's collected state meets an existing name",
        needs="a name saved before a scan and again inside the scan body (same namespace)",
        first_result="caught", strengthening=""),
    "C20_smoother_cov_filtered": dict(property="C20", change="the RTS covariance recursion uses the next filtered covariance instead of the next smoothed one",
        needs="sequence length T >= 3 (smoothed covariances at t <= T-3)",
        first_result="caught", strengthening=""),
    # ---------------- round 2: twenty more sub-agents, told which change site round 1 had used for their property ----------------
    "R2_C01_fn_merge_nested_check": dict(property="C01", change="Fn.merge drops the condition when it recurses into nested choice dictionaries",
        needs="a Cond whose branches call another @gen function at the same address (shared address below the top level), condition True",
        first_result="MISSED by C01 / C03 (every Cond in the corpus had flat shared addresses)",
        strengthening="GFIPrograms.tla: gT / gF / cg / fcg - branches that call a sub-function at the same nested address"),
    "R2_C02_generate_handler_score": dict(property="C02", change="Fn's Generate handler uses -score of a constrained sub-call instead of the weight the callee returns",
        needs="a sub-call (Fn / Scan / Vmap / Cond) constrained on a strict subset of its addresses",
        first_result="caught", strengthening=""),
    "R2_C03_scan_update_old_args": dict(property="C03", change="Scan.update builds its result with dataclasses.replace and keeps the OLD recorded arguments",
        needs="a trace whose own generative function is a Scan, updated with new arguments, then get_args() or an operation with the recorded arguments",
        first_result="MISSED by C03 / C05 (no top-level Scan program; recorded arguments compared for Fn traces only)",
        strengthening="GFIOps.tla: ArgsOf for top-level Scan programs; gfireplay compares the recorded arguments of Fn, Cond and Scan traces and runs Trace.update with the recorded arguments next to gf.update; C03 plan c"),
    "R2_C04_scan_regen_stale_ret": dict(property="C04", change="Scan.regenerate keeps the old final carry / outputs when no step was resampled",
        needs="a Scan whose carry / outputs depend on its arguments, fed by an earlier choice that is selected while no address inside the Scan is",
        first_result="MISSED by C04 / C05 (the only Scan step returned its own choice, independent of the carry argument)",
        strengthening="GFIPrograms.tla: st2 / sc2 / fs2 - a step whose carry and output depend on carry and input, behind a resampled parent choice"),
    "R2_C05_scan_regen_stale_carry": dict(property="C05", change="Scan.regenerate returns the old trace's final carry",
        needs="regenerate / mh with a selection reaching a scan step, then a reader of the final carry",
        first_result="caught (C05, C04, C09)", strengthening=""),
    "R2_C06_sampler_cache_kw_shapes": dict(property="C06", change="the flat-sampler cache becomes long-lived per (sampler, sample_shape) and keys keyword parameters by name only",
        needs="the same distribution at two sites with keyword parameters of different shapes",
        first_result="MISSED by C06 / C14 (sites had no parameters at all); the original patch no longer applies after the repair f931543 of the same cache and was ported by hand (patch_original.diff / patch.diff)",
        strengthening="seedbuild: v_modes shared_param / shared_kw / wrapped_kw - one long-lived primitive (sample_binder) or the wrap_sampler idiom, scalar and vector parameters by position and by keyword"),
    "R2_C07_scan_key_not_evolved": dict(property="C07", change="Seed assigns the key coming out of a scan back to the interpreter key",
        needs="a scan followed by at least two sampling sites (or a cond / another scan)",
        first_result="MISSED by C07 (programs had at most one site after a scan)",
        strengthening="Seed.tla: programs <<N(p), S, S>>, <<C, S, S>>, <<N, C>>, <<N, N>>, <<N, N, S>>"),
    "R2_C08_stale_sample_shape_lane_axis": dict(property="C08", change="the lane-wise sampler captures len(sample_shape) when the batch rule runs instead of when it is called",
        needs="two nested vectorisations, the inner one mapping a site parameter, the outer one not (repeat around a Vmap)",
        first_result="caught", strengthening=""),
    "R2_C09_mala_hmc_drop_kwargs": dict(property="C09", change="the density wrapper of mala / hmc calls assess without the trace's keyword arguments",
        needs="a trace produced with a keyword argument whose value differs from its default, mala or hmc",
        first_result="MISSED by C09 (targets took no arguments)",
        strengthening="c09: the xy target of MCMC.tla also runs through a program with a positional and a keyword argument (non-default value)"),
    "R2_C10_systematic_grid_off_by_one": dict(property="C10", change="systematic resampling positions start at stratum 1 instead of 0",
        needs="resample(method='systematic') with non-uniform weights, N >= 2",
        first_result="caught (C10, C12)", strengthening=""),
    "R2_C11_nested_cond_pure_kont": dict(property="C11", change="a cond inside a cond branch hands the OUTER pure continuation to its branches",
        needs="flip_mvd in a branch of a cond nested in a branch of another cond, the outer branch not the identity on the inner result",
        first_result="the quick tier would have MISSED it (nested conds only in the thorough configuration) - found by inspection, strengthened before the confirmation run",
        strengthening="ADEVCond_q.cfg: shape CC (cond nested in a branch); the harness always runs nested programs with mvd / rf sites"),
    "R2_C12_systematic_offset_range": dict(property="C12", change="the systematic offset is drawn from Uniform(0, 1/N) but still divided by N",
        needs="resample(method='systematic'), N >= 2, looking at the distribution over the offset",
        first_result="MISSED by C12 (the scripted uniform double ignored the bounds the code asks for)",
        strengthening="uniform doubles (c12, c10, c09, gfireplay) treat the script as the standard-uniform quantile: lo + (hi - lo) * u"),
    "R2_C13_multinomial_probs_batch_norm": dict(property="C13", change="multinomial normalises probs= over the whole array instead of the last axis",
        needs="multinomial with a batched probs= keyword",
        first_result="MISSED by C13 (batched rows existed for categorical / bernoulli / normal only)",
        strengthening="Dists.tla: batching law (BatchPairs) - every two rows of one distribution and call convention stacked along a new leading axis must give the two row densities"),
    "R2_C14_guard_memo_per_primitive": dict(property="C14", change="the seed guard for uninterpreted equations is memoised per primitive",
        needs="an earlier seeded program using the same higher-order primitive without a site (jax.nn.relu is a custom_jvp call)",
        first_result="the first check would have MISSED it (no site-free uninterpreted construct ever ran before a placement) - found by inspection, strengthened before the confirmation run",
        strengthening="c14: before every placement its site-free twin (the same stack of constructs around deterministic code) is run"),
    "R2_C15_literal_branch_early_return": dict(property="C15", change="a Jaxpr whose single output is a literal returns without calling the continuation",
        needs="a cond with a branch returning a scalar constant, code after the cond, the constant branch taken; the original patch was ported by hand after ed4ecf9",
        first_result="MISSED by C15 / C11 (no branch with a literal output)",
        strengthening="ADEVDet.tla: operation condc (a branch returning a constant) in scalar and vector programs"),
    "R2_C16_orsel_drop_dead_operand": dict(property="C16", change="OrSel.match returns only the operand whose hit flag is True",
        needs="a union with the complement of a hierarchical selection",
        first_result="caught", strengthening=""),
    "R2_C17_reparam_noise_shape_of_scale": dict(property="C17", change="normal_reparam draws its noise with the shape of the scale alone",
        needs="normal_reparam with a vector location and a shared scalar scale on a target coupling the coordinates",
        first_result="the first check would have MISSED it (no family built on normal_reparam) - found by inspection, strengthened before the confirmation run",
        strengthening="c17: shared-scale normal_reparam family on a coupled 2-d target; the noise double returns values in the shape the code requests and logs it"),
    "R2_C18_accepts_thin_then_burn": dict(property="C18", change="accept flags are thinned first and burn-in dropped afterwards",
        needs="burn_in > 0, thinning > 1, burn_in not a multiple of thinning",
        first_result="caught", strengthening=""),
    "R2_C19_state_batch_rule_dropped": dict(property="C19", change="the re-inserted state primitive loses its batching rule: a second batching level drops it",
        needs="a value saved under two vmap levels",
        first_result="the first check would have MISSED it (no nested vmaps in the grammar) - found by inspection, strengthened before the confirmation run",
        strengthening="StateInterp.tla: nested vmaps (also around / inside scans and namespaces)"),
    "R2_C20_smoother_joseph_swapped": dict(property="C20", change="the smoothed covariance is rewritten in a Joseph form with I - A G instead of I - G A",
        needs="d_state >= 2, A not commuting with the smoother gain, T >= 2",
        first_result="caught", strengthening=""),
}


def main():
    for name in sorted(os.listdir(S)):
        d = os.path.join(S, name)
        if not os.path.isdir(d) or name not in INFO:
            continue
        info = dict(INFO[name])
        res = open(os.path.join(d, "result.txt")).read().split() if os.path.exists(os.path.join(d, "result.txt")) else []
        checks = {}
        for tok in res[2:]:
            c, rc, n = tok.split(":")
            checks[c] = {"exit": int(rc), "violation_lines": int(n)}
        first = ""
        for f in sorted(os.listdir(d)):
            if f.startswith("check_") and f.endswith(".log"):
                m = re.search(r"what: (.*)", open(os.path.join(d, f)).read())
                if m:
                    first = m.group(1)[:300]
                    break
        meta = {
            "breaks_property": info["property"],
            "change": info["change"],
            "needs_to_manifest": info["needs"],
            "produced_by": "independent sub-agent given only the property text and a scratch worktree (see notes.md)" + ("; round 2: additionally told which change site round 1 had used" if name.startswith("R2_") else ""),
            "confirmed": {"demo_on_original_exit": int(res[0]) if res else None, "demo_with_change_exit": int(res[1]) if len(res) > 1 else None,
                          "existing_suite_with_change": "passes (sub-agent's run, see notes.md)"},
            "what_was_run": "tools/seeded.sh: private copies of /repo HEAD (orig / orig + patch.diff); demo.py on both; the listed checks (quick tier) with REPO_ROOT = the changed copy",
            "first_result": info["first_result"],
            "strengthening": info["strengthening"],
            "checks_on_changed_tree_now": checks,
            "first_violation_reported": first,
        }
        with open(os.path.join(d, "meta.json"), "w") as fh:
            json.dump(meta, fh, indent=1)
        print(name, checks)


main()
