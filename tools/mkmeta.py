#!/venv/bin/python
"""Writes /verif/seeded/<name>/meta.json from the confirmation runs (result.txt, check logs) and the table below."""
import json
import os
import re

S = "/verif/seeded"
INFO = {
    "C01_cond_assess_kwargs": dict(property="C01", change="Cond.assess no longer forwards keyword arguments to the False branch",
        needs="a Cond called with keyword arguments, condition False (silent when the branch has a default; loud TypeError otherwise)",
        first_result="MISSED by the first C01 check (no keyword arguments reached a combinator in the corpus)",
        strengthening="GFIPrograms.tla: program fa passes its argument to the Cond by keyword (SiteKw); the recorder reports exceptions of the code under test as violations"),
    "C02_cond_generate_score_weight": dict(property="C02", change="Cond.generate returns -score of the visible branch instead of the branch's generate weight",
        needs="a Cond sub-call constrained on a strict subset of the visible branch's addresses",
        first_result="MISSED by the first C02 quick tier (the only Cond with two-address branches, program fa, was in the thorough corpus only)",
        strengthening="fa moved into the C02 quick corpus"),
    "C03_cond_discard_new_check": dict(property="C03", change="Cond.update selects the discard with the NEW condition",
        needs="an update that flips the condition of a Cond whose hidden branch holds different values (simulated / partially constrained trace); discard or round trip inspected",
        first_result="caught", strengthening=""),
    "C04_regen_drops_subsel": dict(property="C04", change="Fn's Regenerate handler drops the remaining selection when the hit flag is False",
        needs="a complement of a hierarchical selection (e.g. ~sel((sub, x))) over a model with a nested call at that prefix",
        first_result="caught", strengthening=""),
    "C05_regen_records_old_args": dict(property="C05", change="Fn.regenerate records the INPUT trace's arguments in the returned trace",
        needs="regenerate with new arguments, then any operation that reads the recorded arguments (Trace.update, mh, ...)",
        first_result="MISSED by the first C05/C04 checks (recorded arguments were not compared)",
        strengthening="gfireplay compares the arguments recorded in the real trace with the specification's after every operation"),
    "C06_find_site_one_level": dict(property="C06", change="the seed guard for uninterpreted equations no longer recurses into nested sub-Jaxprs",
        needs="a sampling site under TWO uninterpreted equations (checkpoint(checkpoint(.)), checkpoint(custom_jvp(.))), called eagerly under seed",
        first_result="MISSED by the first C06/C14 checks (only one level of uninterpreted nesting in the grammar / depth-2 stacks)",
        strengthening="Seed.tla: statements O(O(S)), O(J(S)), J(O(S;S)) and a custom_jvp kind J; Lowering.tla: stacks seed>X>Y and seed>X>{grad,modular_vmap}>Z for uninterpreted X,Y,Z"),
    "C07_cond_branch0_key": dict(property="C07", change="Seed hands branch 0 of a lax.cond/switch the key the interpreter continues with",
        needs="a raw lax.cond/switch under seed whose branch 0 (false branch) samples, followed by another site",
        first_result="caught", strengthening=""),
    "C08_reverse_scan": dict(property="C08", change="ModularVmap re-emits scans without the reverse flag",
        needs="lax.scan(reverse=True) inside a function run under modular_vmap / Vmap / repeat",
        first_result="MISSED by the first C08 check (no control flow inside the mapped functions)",
        strengthening="C08 runs forward / reverse scans and cond inside modular_vmap against the per-slice reference (seeded and jit)"),
    "C09_cond_regen_score_diff": dict(property="C09", change="Cond.regenerate returns the visible score difference instead of the branch regenerate weight",
        needs="mh (regenerate) with a selection that reaches a choice owned by a Cond",
        first_result="caught", strengthening=""),
    "C10_extend_partial_proposal": dict(property="C10", change="extend with a custom proposal uses -score of the new trace instead of the generate weight",
        needs="a custom extension proposal that does not propose every latent of the step model",
        first_result="MISSED by the first C10 check (the custom proposal covered every latent)",
        strengthening="SMC.tla: second latent u that no custom proposal proposes (WithU); the harness replays those pipelines"),
    "C11_lane_rb_first_axis": dict(property="C11", change="_flip_lane_rb_estimate loops over len(b) instead of the flattened lane count",
        needs="a flip_enum / flip_mvd site whose probability argument has rank >= 2 (lanes beyond the first axis contribute no tangent)",
        first_result="MISSED by the first C11 check by construction (ADEV.tla had scalar sites only); the confirmation run used the strengthened check",
        strengthening="ADEVVec.tla (vector / matrix flip sites, M = 2, 4 lanes, exact sum over all outcomes of prob * tangent) and c11.run_batched_sites"),
    "C12_resample_stale_diag_weights": dict(property="C12", change="resample draws the ancestors from diagnostic_weights instead of log_weights",
        needs="a collection whose diagnostic_weights are not the normalised log_weights (second resample, init_csmc, hand-built collection)",
        first_result="caught", strengthening=""),
    "C13_categorical_axis0_shift": dict(property="C13", change="categorical shifts the logits by their maximum over axis 0 instead of the category axis",
        needs="categorical with logits that have a leading batch axis",
        first_result="MISSED by the first C13 check (every table row had unbatched parameters)",
        strengthening="Dists.tla: rows with batched parameters (categorical logits matrix, vector normal / bernoulli); the sampler screen draws from batched logits"),
    "C14_guard_after_bind_params": dict(property="C14", change="the seed guard searches the dict returned by get_bind_params (custom_jvp's call_jaxpr already popped)",
        needs="a sampling site inside a custom_jvp / custom_vjp function, seeded",
        first_result="caught", strengthening=""),
    "C15_jvp_flag_last_operand": dict(property="C15", change="the 'no tangent' shortcut of the default JVP rule looks at the last operand only",
        needs="a primitive whose differentiable operand precedes an integer / boolean operand (dynamic index, take, clip with int bounds)",
        first_result="MISSED by the first C15 check by construction (no primitive with a trailing integer operand in the corpus); the confirmation run used the strengthened check",
        strengthening="ADEVDet.tla: operations dynidx (x[argmax x]), take21 (jnp.take with an index array), clip11 (integer bounds) with their exact dual-number semantics"),
    "C16_insel_short_circuit": dict(property="C16", change="InSel.match returns (False, NoneSel()) as soon as one operand's hit flag is False",
        needs="an intersection with the complement of a hierarchical selection (~sel((a, b)), ~sel({a: sel(b)})), matched at the prefix",
        first_result="the first quick tier would have MISSED it (depth-1 expressions over atoms without complements of hierarchical selections; the depth-2 thorough model contains it) - found by inspection, strengthened before the confirmation run",
        strengthening="Selection.tla: SmallAtoms contains not(tup(a,b)) and not(dict(a: str(b))), so depth-1 and/or range over them"),
    "C17_mvn_reparam_transpose": dict(property="C17", change="MultivariateNormalREPARAM reparameterises with eps @ L instead of L @ eps",
        needs="multivariate_normal_reparam with a non-diagonal Cholesky factor inside an expectation (full-covariance family)",
        first_result="the first C17 check would have MISSED it (scalar and mean-field families only) - found by inspection, strengthened before the confirmation run",
        strengthening="c17: 2-d Gaussian target with a full-covariance family, non-diagonal Cholesky factor, scripted noise; objective compared with log p(y, m + L eps) - log q"),
    "C18_accepts_double_burn_in": dict(property="C18", change="chain() applies the burn-in offset twice to the accept flags",
        needs="burn_in > 0 and a kernel whose accept flags vary over the steps",
        first_result="caught", strengthening=""),
    "C19_scan_merge_first_write_wins": dict(property="C19", change="_nested_dict_merge keeps the first write when a scan's collected state meets an existing name",
        needs="a name saved before a scan and again inside the scan body (same namespace)",
        first_result="caught", strengthening=""),
    "C20_smoother_cov_filtered": dict(property="C20", change="the RTS covariance recursion uses the next filtered covariance instead of the next smoothed one",
        needs="sequence length T >= 3 (smoothed covariances at t <= T-3)",
        first_result="caught", strengthening=""),
}


def main():
    for name in sorted(os.listdir(S)):
        d = os.path.join(S, name)
        if not os.path.isdir(d) or name not in INFO:
            continue
        info = dict(INFO[name])
        res = open(os.path.join(d, "result.txt")).read().split() if os.path.exists(os.path.join(d, "result.txt")) else []
        checks = {}
        for tok in res[2:]:
            c, rc, n = tok.split(":")
            checks[c] = {"exit": int(rc), "violation_lines": int(n)}
        first = ""
        for f in sorted(os.listdir(d)):
            if f.startswith("check_") and f.endswith(".log"):
                m = re.search(r"what: (.*)", open(os.path.join(d, f)).read())
                if m:
                    first = m.group(1)[:300]
                    break
        meta = {
            "breaks_property": info["property"],
            "change": info["change"],
            "needs_to_manifest": info["needs"],
            "produced_by": "independent sub-agent given only the property text and a scratch worktree (see notes.md)",
            "confirmed": {"demo_on_original_exit": int(res[0]) if res else None, "demo_with_change_exit": int(res[1]) if len(res) > 1 else None,
                          "existing_suite_with_change": "passes (sub-agent's run, see notes.md)"},
            "what_was_run": "tools/seeded.sh: private copies of /repo HEAD (orig / orig + patch.diff); demo.py on both; the listed checks (quick tier) with REPO_ROOT = the changed copy",
            "first_result": info["first_result"],
            "strengthening": info["strengthening"],
            "checks_on_changed_tree_now": checks,
            "first_violation_reported": first,
        }
        with open(os.path.join(d, "meta.json"), "w") as fh:
            json.dump(meta, fh, indent=1)
        print(name, checks)


main()
