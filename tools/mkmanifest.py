#!/venv/bin/python
"""Regenerates /verif/MANIFEST.json from the table below and validates it against the schema."""
import json, os, sys
import jsonschema

V = "/verif"
CHECKS = {
 "C16": dict(category="model_checking", design_ref="DESIGN.md §4 C16",
   text="TLC exhausts the bounded expression space (atoms all/none/str/tup/dict, not/or/and to depth 1 quick / 2 thorough) x all paths <= depth 3 x 5 shapes: the match-remainder chain and the filter algorithm satisfy the Boolean-algebra Contract Den; every exported expression is then evaluated on the real sel objects (chain, filter, merge on 9 real shape programs incl. vectorised, Cond-merged, Scan) and a sample on regenerate/mala/hmc move sets; random deeper expressions are recorded from the code and validated by TLC (SelectionTrace).",
   note="bounded nesting/alphabet; move-set detection assumes resampled continuous leaves change value; compat layer trusted",
   technique="TLA+ spec (Selection.tla) checked by TLC; exhaustive replay of the TLC-exported Den table into genjax selections/filter/regenerate/mala/hmc; TLC trace validation of recorded verdicts"),
}

GFI_NOTE = "bounded corpus (GFIPrograms.tla: 3-valued dyadic tri-distributions, <= 5 leaves, nesting depth <= 3); scripted outcomes are carried by model arguments; compat layer trusted; continuous-site programs are not in this corpus"
GFI_TECH = "TLA+ spec (GFIOps.tla/GFI.tla: handler-level Impl vs denotational Contract) checked by TLC; every TLC behaviour (dumped states carry the call history) replayed into the real GFI with scripted randomness; real-randomness runs recorded and validated by TLC against GFITrace.tla"
CHECKS.update({
 "C01": dict(category="model_checking", design_ref="DESIGN.md §4 C01", note=GFI_NOTE, technique=GFI_TECH,
   text="TLC: for every program/argument/outcome of the corpus the simulate handler machine yields score = denotational density, retval = program value, behaviour probability 2^-score and total probability 1 (SimTotalProb); all behaviours replayed through seed(gf.simulate) eagerly and under jit, assess/log_density evaluated on the returned choices; thousands of real-randomness runs (eager/jit/vmap-over-keys) validated by TLC, outcome frequencies chi-square screened against exp(-score)."),
 "C02": dict(category="model_checking", design_ref="DESIGN.md §4 C02", note=GFI_NOTE, technique=GFI_TECH,
   text="TLC: for every lane-closed subset of leaf addresses x every value assignment as constraint, generate's weight = sum of constrained log-probs = mass - score, constrained values held, and sum over outcomes of 2^(-mass+w) equals the marginal probability of the constraint (GenUnbiased, exact integer identity); replayed through seed(gf.generate) (eager/jit) incl. unconstrained whole sub-calls; real-randomness generate runs validated by TLC."),
 "C03": dict(category="model_checking", design_ref="DESIGN.md §4 C03", note=GFI_NOTE, technique=GFI_TECH,
   text="TLC: from every simulated trace, every new argument (incl. Cond flips, Scan/Vmap input changes) and constraint: new choices = old overridden, weight = density ratio, discard = old visible values, update-back restores (UpdateOK); replayed on the real update with the real discard fed back; real-randomness updates validated by TLC."),
 "C04": dict(category="model_checking", design_ref="DESIGN.md §4 C04", note=GFI_NOTE, technique=GFI_TECH,
   text="TLC: from every simulated trace, every selection of SelsFor (all/none/str/tup/complement/union over the program's address paths), every new argument and every outcome of the resampled sites: unselected leaves unchanged, weight = change of the unselected leaves' log-probs, discard = old selected values, definedness on Scan/Vmap/Cond programs (RegenerateOK); replayed on the real regenerate; real-randomness runs validated by TLC."),
 "C05": dict(category="model_checking", design_ref="DESIGN.md §4 C05", note=GFI_NOTE, technique=GFI_TECH,
   text="TLC exhaustively checks all histories of length 3 (update/regenerate/mh accept+reject/jit round trip) over the smallest programs with Coherent, ObservedKept and Telescoping in every state; TLC -simulate histories of length 3-6 (incl. lane resampling of vectorised traces) are stepped through the real trace objects with the observable state compared after every step; random real-randomness histories validated by TLC."),
 "C06": dict(category="model_checking", design_ref="DESIGN.md §4 C06",
   note="program grammar of Seed.tla (depth <= 2: sites, sample_shape/modular_vmap lanes, cond, scan, nested calls, uninterpreted equations); threefry trusted",
   technique="TLA+ spec (Seed.tla: eval_jaxpr_seed key discipline over key terms) checked by TLC over all interleavings; replay of interleavings on real seed(f) with bit-revealing sample sites across eager/jit/vmap/jit-of-vmap/kwargs",
   text="TLC: for every program of the grammar and every interleaving of seeded calls (2 roots, all branch decisions) with foreign unseeded sampling, site keys are a function of (root, path) only (Pure), never the hidden counter (NoHidden), rooted in the call's key (RootsApart); replayed: same (program,key,decisions) must give bit-identical draws eagerly, under jit, vmap over keys, jit-of-vmap, keyword arguments and batched predicates, whatever ran in between; distinct keys give disjoint draws."),
 "C07": dict(category="model_checking", design_ref="DESIGN.md §4 C07",
   note="as C06; statistical independence of distinct threefry streams is assumed, not checked",
   technique="TLA+ spec (Seed.tla) checked by TLC (Distinct: injectivity of site -> (key term, lane)); replay with bit-revealing sites: pairwise distinct 64-bit draws and equality with the bits of the model's key terms",
   text="TLC: no two sites of one seeded run share (key term, lane) across statements, scan iterations, sample_shape / modular_vmap lanes, cond branches taken, nested calls, for every program of the grammar; replayed on real code where each site returns the 64 random bits it consumes: pairwise distinct within a run, and equal to bits(key term) predicted by the spec (informational)."),
 "C14": dict(category="model_checking", design_ref="DESIGN.md §4 C14",
   note="placement space bounded by depth (2 quick exhaustive, 3 thorough sampled); outcome classes decided by 2 calls with one key and 1 with another; two deviations are listed in known_findings.json by the pjax.py rule through which they occur (Lowering.tla: Family)",
   technique="TLA+ spec (Lowering.tla: Contract outcome vs Impl of lowering/batching/jvp rules and the Seed interpreter) checked by TLC; every enumerated placement executed as real JAX code and classified",
   text="TLC enumerates every stack of <= Depth contexts from {jit, scan, while, fori_static, fori_dynamic, cond, switch, grad, vmap, modular_vmap, remat, custom_jvp, seed} around one site (batched or not) and checks the rule model against the Contract outcome; each placement is built and run as real code: lowering error / other error / keyed value / fresh eager value / replicated lanes / fixed or hidden randomness must match the Contract."),
 "C08": dict(category="model_checking", design_ref="DESIGN.md §4 C08",
   note="modular_vmap: the case table of ModularVmap.tla (ranks <= 2, 2|3 lanes, one site per function) - composition with other ops relies on jax.vmap itself; Vmap combinator: GFI corpus bounds",
   technique="TLA+ specs (ModularVmap.tla lane-wise Contract vs batching-rule model; GFI.tla for the Vmap combinator) checked by TLC; exported cases executed on real modular_vmap with echo / bit-revealing / density sites; GFI behaviours replayed",
   text="TLC checks the batching-rule model against the lane-wise Contract for every (site kind, in_axes in {0,1,None,mixed}, sample_shape, per-lane ranks) case and exports the expected tensors; each case runs on the real modular_vmap (eager, seeded, jit, explicit axis_size, dict-pytree in_axes) with parameter-echoing sites (layout, pairing), bit-revealing sites (independent lanes) and density sites; the Vmap combinator / repeat is replayed through GFI.tla behaviours (simulate/generate/update/regenerate on vectorised programs)."),
 "C19": dict(category="model_checking", design_ref="DESIGN.md §4 C19",
   note="program grammar of StateInterp.tla (depth <= 3); save inside cond branches / nested jit / while are outside the claim and the grammar; where scans and vmaps nest only the set of axes is Contract-level, their order is informational",
   technique="TLA+ spec (StateInterp.tla: namespace-stack interpreter vs denotational Collected) checked by TLC; every exported program built as a real function and run as state(f), jit, seed, vmap",
   text="TLC checks the interpreter model (namespace stack, fresh interpreter per scan body, merge) against the denotational collected dictionary for every program of the grammar (namespaces around/inside scans, nested scans, vmaps, later writes) and exports the expected dictionaries; each program is built as a real function: result unchanged by state, collected names and arrays equal, eagerly, under jit, under seed, under vmap(state(f)), with jax.vmap and modular_vmap inside."),
 "C18": dict(category="model_checking", design_ref="DESIGN.md §4 C18",
   note="grid n <= 6 (quick) / 9 (thorough), thinning <= 3/4, chains <= 2/3; kernels: deterministic tracer, mh on a dyadic model, a composite kernel; independence of chains is checked as 'not identical', not statistically",
   technique="TLA+ spec (Chain.tla: scan + arange slicing vs retained-step Contract) checked by TLC; every grid case run on the real chain() with a deterministic tracer kernel and with random kernels (slice identity)",
   text="TLC checks the loop/slicing model against the Contract (retained steps burn_in+1, +thin, ...; accepts aligned; rate; count) for the whole grid and prints the expected iterates; each case is run on the real chain(): tracer kernel -> exact iterates/flags/rate/count (also per chain with a leading axis), random kernels -> chain(n,b,t) equals the [b::t] slice of the un-thinned run under the same key, retained traces coherent, chains not sharing randomness."),
 "C12": dict(category="model_checking", design_ref="DESIGN.md §4 C12",
   note="integer weight vectors in [0..MaxW]^N, N <= 4 (5 thorough); near-uniform/degenerate weights only as far as this grid contains them; float32 cumulative sums are compared at interval midpoints (no ties)",
   technique="TLA+ spec (Resample.tla) checked by TLC (floor/ceil, exact expected counts, estimate preservation); every case replayed on the real resample() with scripted offset/ancestors; real-randomness runs validated by TLC (ResampleTrace.tla)",
   text="TLC: for every weight vector and every offset interval systematic resampling gives floor/ceil(N w_i) copies, expected copies are exactly N w_i for both methods (sum over intervals / over all ancestor vectors with their mass), zero-weight particles are never copied, log_marginal_likelihood() is unchanged by the move; each case is replayed on the real resample() (ancestors recovered from unique ids, every trace leaf cross-checked against ONE source index, weights reset, diagnostic weights, randomness consumed); seeded real runs are validated by TLC: systematic ancestor vectors must be produced by some offset interval."),
 "C10": dict(category="model_checking", design_ref="DESIGN.md §4 C10",
   note="3-valued dyadic one-step state-space model, N in {2,3}, hand-composed pipelines of <= 5 moves, custom proposal = dyadic proposal given the observation; rejuvenation by mh on the latent; rejuvenation_smc's ESS-triggered composite is covered by its constituent moves only",
   technique="TLA+ spec (SMC.tla) checked by TLC: proper weighting per move and E[Zhat] = evidence exactly (rational registers + POSTCONDITION) over all behaviours; behaviours replayed on the real smc module with scripted particle draws, ancestors, offsets and accept thresholds",
   text="TLC enumerates every behaviour (all particle draws, ancestor vectors/offset intervals, accept patterns) of init/extend (default and custom proposals), resample (both methods) and rejuvenate(mh) pipelines and proves that the mass-weighted sum of exp(log_marginal_likelihood()) equals the exact evidence after every move; sampled behaviours are replayed on the real smc functions: per-particle choices, integer log weights and log_marginal_likelihood compared after every move, rejuvenation leaves weights untouched."),
 "C09": dict(category="model_checking", design_ref="DESIGN.md §4 C09",
   note="mh: GFI corpus (finite dyadic models); mala/hmc: three Gaussian targets with unit scales on a rational grid (states, noises in {-1,0,1/2}, step sizes {1/2,1}, 2 leapfrog steps); the acceptance probability is pinned by two thresholds (-10% / +10%), not measured exactly; invariance of the posterior follows from detailed balance and is not sampled",
   technique="TLA+ specs checked by TLC: GFI.tla (DetailedBalance of mh as the weight identity, MHOK) and MCMC.tla (MH rule, antisymmetry, leapfrog involution, energy rule, exact rationals); behaviours replayed on the real kernels with scripted proposals, noise and thresholds; TLC counterexamples are replayed on the real code before they count",
   text="mh: TLC checks for every observed-data pattern, selection (incl. inside Vmap/Scan/Cond sub-calls), proposal outcome and accept/reject that the weight equals the change of the unselected log-probabilities - equivalent to detailed balance for the rule min(1, e^w) - also for the mixture-indicator move, that accepted moves return the proposal and rejected ones the input; behaviours replayed on the real mh. mala/hmc: TLC computes proposals and log acceptance ratios exactly in rationals, checks the Metropolis-Hastings rule, antisymmetry (detailed balance), leapfrog involution and the energy rule; each case runs on the real kernels with scripted per-coordinate noise: proposed values, accept/reject at thresholds around the exact probability, rejected => identical trace, one normal per coordinate, observed addresses untouched."),
 "C15": dict(category="model_checking", design_ref="DESIGN.md §4 C15",
   note="corpus of 16 deterministic programs (ADEVDet.tla) over scalar / vector(2) / matrix(2x2) / pytree arguments on a rational grid; JAX primitives outside the corpus are not covered",
   technique="TLA+ spec (ADEVDet.tla: exact dual-number semantics in rationals) evaluated by TLC for every (program, point, tangent seed); values compared with the real jvp_estimate / grad_estimate / estimate and with jax.jvp / jax.grad",
   text="TLC evaluates the dual-number (forward-mode) semantics of every corpus program exactly and exports primal and tangent for every argument point and tangent seed; the real expectation(f).jvp_estimate, grad_estimate and estimate (also under jit) must return those values (and agree with jax.jvp / jax.grad) for scalar, array-valued and pytree arguments, incl. transpose, slicing, dot, cond with either branch, integer intermediates; a crash is a violation."),
 "C11": dict(category="model_checking", design_ref="DESIGN.md §4 C11",
   note="programs of <= 2 (thorough: 3 in TLC) sites over flip_enum, flip_mvd, REINFORCE(flip), normal_reparam, REINFORCE(normal) with polynomial returns; batched (parallel-enumeration / vectorised) sites and geometric/uniform/multivariate primitives are not covered; continuous score-function unbiasedness is checked per draw only; the REINFORCE rule is exercised through the public reinforce() factory with scripted samplers, the exported flip_reinforce through seeded runs",
   technique="TLA+ spec (ADEV.tla: CPS interpreter rules vs exact enumeration, rationals) checked by TLC (sum prob*tangent = exact derivative; enumeration exact); every outcome replayed with scripted draws on real @expectation programs; seeded runs matched against the specification's outcome sets",
   text="TLC enumerates every outcome (draws in execution order, probability, primal, tangent) of the CPS estimator for every program and parameter value and proves that the probability-weighted tangents sum to the exact derivative (and primals to the exact value), that enumeration-only programs are exact per outcome; (A) every outcome of the scriptable programs is replayed on the real expectation programs with scripted draws (jvp_estimate and grad_estimate), (B) seeded jit/vmap runs of all discrete programs must only produce (primal, tangent) pairs of the specification's outcome set with means within 6.5 standard errors of the exact derivative, enumeration-only programs key-independent."),
 "C17": dict(category="model_checking", design_ref="DESIGN.md §4 C17",
   note="two conjugate instances (Bernoulli/Bernoulli on theta in {1/4,1/2,3/4}; Gaussian/Gaussian with posterior N(3y/4, 1/2)); families: flip_enum / flip_mvd / REINFORCE(flip), mean-field and full-covariance normal (reparam); the Gaussian tightness and bound are float comparisons against closed forms / a 6.5 s.e. mean screen",
   technique="TLA+ spec (VI.tla: log ring Q[ln2,ln3] for the Bernoulli instance, rationals for the optimisation loop) checked by TLC; every printed case run on the real elbo_factory / optimize_vi / elbo_vi with scripted draws and noise",
   text="TLC proves, exactly, tightness of the objective at the posterior for every draw, the bound below log p(x) elsewhere, unbiasedness of value and gradient estimates for the three flip families, the sign of the exact gradient (ascent towards the posterior), and the iterates of gradient ascent with zero noise; the real elbo_factory objects are evaluated draw by draw (estimate, jvp_estimate, grad_estimate) against those ring values, optimize_vi / elbo_vi histories must equal the exact rational iterates (sign, step size, history alignment, final = last), the Gaussian objective must equal log p(x) for every scripted noise at the posterior."),
 "C20": dict(category="model_checking", design_ref="DESIGN.md §4 C20",
   note="HMM: three models (2x2 dense, 3x3 with zeros, 2 states x 3 symbols), T <= 3, all observation sequences of positive probability; Kalman in TLA+: scalar model, T = 2, three parameter sets; d_obs != d_state and T = 3 are compared with a numpy conditioning oracle (float64) - that part is exploration-level; FFBS by a fixed-key chi-square screen",
   technique="TLA+ spec (StateSpace.tla: alpha recursion vs brute-force path sums; Kalman / RTS recursion vs conditioning the joint Gaussian, exact rationals) checked by TLC; exported tables compared with forward_filter, compute_sequence_log_prob, the iterated step models, kalman_filter / kalman_smoother",
   text="TLC proves step by step that the alpha recursion equals brute-force summation over all state sequences and that the scalar Kalman filter / RTS smoother equal conditioning of the joint Gaussian (means, variances, quadratic form and determinant of the log marginal), exactly; the real forward_filter (eager and jit), compute_sequence_log_prob, discrete_hmm and linear_gaussian iterated over time, kalman_filter and kalman_smoother are compared with the exported rationals; backward sampling frequencies are screened against the exact posterior."),
 "C13": dict(category="exploration", design_ref="DESIGN.md §4 C13, §5",
   note="one to three exactly representable (parameter, value) points per distribution; sampler laws are 6.5-sigma screens with fixed keys (statistical, outside what a TLA+ model decides); arbitrary parameter values are not covered",
   technique="exact log-density tables computed by TLC in a log ring (Dists.tla: Q[ln2,ln3,ln5,ln7,ln pi], finite supports summed to one) compared with logpdf / assess / modular_vmap / jit; fixed-key statistical screens of the samplers (sample_shape and vectorised) against documented pmfs / exact quantile probabilities; exact shape and dtype laws",
   text="The documented parameterisation of each of the 24 exported distributions is written as an exact ring-valued log density at grid points in Dists.tla (TLC checks the finite supports sum to one and the ring arithmetic) and compared with the real logpdf through four call paths, positional and keyword conventions included; samplers are screened (seeded, with sample_shape, vectorised) for shape, dtype and law. Exploration level: the density part is exact at the grid, the sampler part statistical."),
})

PENDING = {}
def main():
    props = [json.loads(l) for l in open(f"{V}/properties.jsonl")]
    checks = []
    for p in props:
        c = CHECKS.get(p["id"])
        if not c: continue
        checks.append({
            "property_id": p["id"],
            "quick_cmd": f"checks/check.sh {p['id']} quick",
            "thorough_cmd": f"checks/check.sh {p['id']} thorough",
            "evidence_file": f"/verif/evidence/{p['id']}.json",
            "replay_cmd_template": f"checks/check.sh {p['id']} quick --replay {{path}}",
            "engine": "tlc+replay",
            "level_claimed": {"category": c["category"], "text": c["text"], "design_ref": c["design_ref"]},
            "level_note": c["note"], "technique": c["technique"]})
    na = [{"property_id": p["id"], "reason": PENDING.get(p["id"], "check not built yet in this round (planned: DESIGN.md §4); not claimed")}
          for p in props if p["id"] not in CHECKS]
    m = {"version": 1,
         "setup_cmd": "sh checks/setup.sh",
         "hooks": {"guard": "GENJAX_VERIF", "enable": "no source hooks: checks import genjax from /repo/src under the harness-side compat layer (GENJAX_VERIF=1 is exported but nothing in /repo reads it)",
                   "baseline_off_cmd": "cd /repo && /venv/bin/python -m pytest -ra -q -p no:cacheprovider --timeout=900 --continue-on-collection-errors --junitxml=/tmp/baseline_off.junit.xml",
                   "source_commits": [], "add_only": True},
         "engines": [{"name": "tlc+replay", "path": "/verif/harness/gxverif", "serves_properties": sorted(CHECKS),
                      "kind_free_text": "TLA+ specs in /verif/specs checked with TLC; behaviours/tables exported by TLC are replayed into the real genjax code, recorded runs are validated by TLC trace specs"}],
         "checks": checks, "not_applicable": na,
         "notes": "fix: commits in /repo: see known_findings.json (status fixed). Exit codes: 0 held, 1 VIOLATION, 2 machinery failure."}
    jsonschema.validate(m, json.load(open("/root/.vp/MANIFEST.schema.json")))
    json.dump(m, open(f"{V}/MANIFEST.json", "w"), indent=1)
    print("MANIFEST ok:", len(checks), "checks,", len(na), "not claimed")
main()
