#!/venv/bin/python
"""Regenerates /verif/MANIFEST.json from the table below and validates it against the schema."""
import json, os, sys
import jsonschema

V = "/verif"
CHECKS = {
 "C16": dict(category="model_checking", design_ref="DESIGN.md §4 C16",
   text="TLC exhausts the bounded expression space (atoms all/none/str/tup/dict, not/or/and to depth 1 quick / 2 thorough) x all paths <= depth 3 x 5 shapes: the match-remainder chain and the filter algorithm satisfy the Boolean-algebra Contract Den; every exported expression is then evaluated on the real sel objects (chain, filter, merge on 9 real shape programs incl. vectorised, Cond-merged, Scan) and a sample on regenerate/mala/hmc move sets; random deeper expressions are recorded from the code and validated by TLC (SelectionTrace).",
   note="bounded nesting/alphabet; move-set detection assumes resampled continuous leaves change value; compat layer trusted",
   technique="TLA+ spec (Selection.tla) checked by TLC; exhaustive replay of the TLC-exported Den table into genjax selections/filter/regenerate/mala/hmc; TLC trace validation of recorded verdicts"),
}
PENDING = {}
def main():
    props = [json.loads(l) for l in open(f"{V}/properties.jsonl")]
    checks = []
    for p in props:
        c = CHECKS.get(p["id"])
        if not c: continue
        checks.append({
            "property_id": p["id"],
            "quick_cmd": f"checks/check.sh {p['id']} quick",
            "thorough_cmd": f"checks/check.sh {p['id']} thorough",
            "evidence_file": f"/verif/evidence/{p['id']}.json",
            "replay_cmd_template": f"checks/check.sh {p['id']} quick --replay {{path}}",
            "engine": "tlc+replay",
            "level_claimed": {"category": c["category"], "text": c["text"], "design_ref": c["design_ref"]},
            "level_note": c["note"], "technique": c["technique"]})
    na = [{"property_id": p["id"], "reason": PENDING.get(p["id"], "check not built yet in this round (planned: DESIGN.md §4); not claimed")}
          for p in props if p["id"] not in CHECKS]
    m = {"version": 1,
         "setup_cmd": "sh checks/setup.sh",
         "hooks": {"guard": "GENJAX_VERIF", "enable": "no source hooks: checks import genjax from /repo/src under the harness-side compat layer (GENJAX_VERIF=1 is exported but nothing in /repo reads it)",
                   "baseline_off_cmd": "cd /repo && /venv/bin/python -m pytest -ra -q -p no:cacheprovider --timeout=900 --continue-on-collection-errors --junitxml=/tmp/baseline_off.junit.xml",
                   "source_commits": [], "add_only": True},
         "engines": [{"name": "tlc+replay", "path": "/verif/harness/gxverif", "serves_properties": sorted(CHECKS),
                      "kind_free_text": "TLA+ specs in /verif/specs checked with TLC; behaviours/tables exported by TLC are replayed into the real genjax code, recorded runs are validated by TLC trace specs"}],
         "checks": checks, "not_applicable": na,
         "notes": "fix: commits in /repo: see known_findings.json (status fixed). Exit codes: 0 held, 1 VIOLATION, 2 machinery failure."}
    jsonschema.validate(m, json.load(open("/root/.vp/MANIFEST.schema.json")))
    json.dump(m, open(f"{V}/MANIFEST.json", "w"), indent=1)
    print("MANIFEST ok:", len(checks), "checks,", len(na), "not claimed")
main()
