---------------------------- MODULE ModularVmap ----------------------------
(* C08 (modular_vmap half): modular_vmap(f, in_axes, axis_size) is a lane-wise map.

   Tensors are nested sequences of integers (rank 0: Int, rank 1: Seq(Int), rank 2: Seq(Seq(Int))).
   Functions under test (one PJAX site or a deterministic op each; they compose through the generic interpreter):
      echo(x; ss)      sampling site whose draw equals its parameter, laid out sample_shape + shape(x)   (TFP shape law)
      echo2(x, y)      sampling site with two parameters of different per-lane rank: draw = x + 10 * y (broadcast)
      dens(v, x)       log-density site: TAB[x][v] element-wise
      det(x, y)        deterministic: 2 * x + y
   Contract : LaneWise - apply the function to every slice and stack along output axis 0 (as jax.vmap does).
   Impl     : RuleNew  - the sample batching rule after the repair: per-lane keys, the keyful sampler vmapped over the
                         lanes with the site's in_axes (lane-wise by construction), declared output axis 0.
              RuleOld  - the rule before the repair: batched parameters handed to the sampler as they are, output
                         axis 0 declared (kept to document the defect: ModularVmap_prefix.cfg expects a violation).     *)
EXTENDS Integers, Sequences, SequencesExt, FiniteSets, TLC, TLCExt, Json, IOUtils

CONSTANTS L,     \* number of lanes
          M      \* inner extent

Rank1(f(_), n) == [i \in 1..n |-> f(i)]
(* test tensors with pairwise distinct entries *)
TX1 == [l \in 1..L |-> 10 * l]                                   \* one scalar per lane            shape (L,)
TX2a0 == [l \in 1..L |-> [i \in 1..M |-> 10 * l + i]]            \* one vector per lane, lanes on axis 0   (L, M)
TX2a1 == [i \in 1..M |-> [l \in 1..L |-> 10 * l + i]]            \* the same, lanes on axis 1               (M, L)
TY2a0 == [l \in 1..L |-> [i \in 1..M |-> 100 * l + 7 * i]]
TY2a1 == [i \in 1..M |-> [l \in 1..L |-> 100 * l + 7 * i]]
TU == [i \in 1..M |-> 3 * i]                                     \* unbatched vector (in_axes None)        (M,)

Slice(t, ax, l) == CASE ax = 0 -> t[l] [] ax = 1 -> [i \in DOMAIN t |-> t[i][l]] [] OTHER -> t

(* --- per-lane semantics of the functions --- *)
Map2(Op(_, _), a, ra, b, rb) ==           \* numpy broadcasting of a binary op over per-lane ranks ra, rb <= 1
  IF ra = 0 /\ rb = 0 THEN Op(a, b)
  ELSE IF ra = 0 THEN [i \in DOMAIN b |-> Op(a, b[i])]
  ELSE IF rb = 0 THEN [i \in DOMAIN a |-> Op(a[i], b)]
  ELSE [i \in DOMAIN a |-> Op(a[i], b[i])]
Echo(x, ss) == IF ss = 0 THEN x ELSE [j \in 1..ss |-> x]
Tab(x, v) == IF (x + v) % 2 = 0 THEN 1 ELSE 2

CaseSeq == <<
  [f |-> "echo",  ss |-> 0, args |-> <<TX1>>,          ranks |-> <<0>>, axes |-> <<0>>],
  [f |-> "echo",  ss |-> 0, args |-> <<TX2a0>>,        ranks |-> <<1>>, axes |-> <<0>>],
  [f |-> "echo",  ss |-> 0, args |-> <<TX2a1>>,        ranks |-> <<1>>, axes |-> <<1>>],
  [f |-> "echo",  ss |-> 2, args |-> <<TX1>>,          ranks |-> <<0>>, axes |-> <<0>>],
  [f |-> "echo",  ss |-> 2, args |-> <<TX2a1>>,        ranks |-> <<1>>, axes |-> <<1>>],
  [f |-> "echo",  ss |-> 0, args |-> <<TU>>,           ranks |-> <<1>>, axes |-> <<9>>],
  [f |-> "echo2", ss |-> 0, args |-> <<TX1, TY2a0>>,   ranks |-> <<0, 1>>, axes |-> <<0, 0>>],
  [f |-> "echo2", ss |-> 0, args |-> <<TX1, TY2a1>>,   ranks |-> <<0, 1>>, axes |-> <<0, 1>>],
  [f |-> "echo2", ss |-> 0, args |-> <<TX1, TU>>,      ranks |-> <<0, 1>>, axes |-> <<0, 9>>],
  [f |-> "echo2", ss |-> 0, args |-> <<TX2a1, TY2a0>>, ranks |-> <<1, 1>>, axes |-> <<1, 0>>],
  [f |-> "dens",  ss |-> 0, args |-> <<TX2a0, TY2a0>>, ranks |-> <<1, 1>>, axes |-> <<0, 0>>],
  [f |-> "dens",  ss |-> 0, args |-> <<TX2a1, TY2a0>>, ranks |-> <<1, 1>>, axes |-> <<1, 0>>],
  [f |-> "dens",  ss |-> 0, args |-> <<TU, TX1>>,      ranks |-> <<1, 0>>, axes |-> <<9, 0>>],
  [f |-> "det",   ss |-> 0, args |-> <<TX2a1, TY2a0>>, ranks |-> <<1, 1>>, axes |-> <<1, 0>>],
  [f |-> "det",   ss |-> 0, args |-> <<TX1, TU>>,      ranks |-> <<0, 1>>, axes |-> <<0, 9>>] >>

Apply(c, xs) == CASE c.f = "echo" -> Echo(xs[1], c.ss)
                  [] c.f = "echo2" -> Map2(LAMBDA a, b : a + 10 * b, xs[1], c.ranks[1], xs[2], c.ranks[2])
                  [] c.f = "dens" -> Map2(LAMBDA a, b : Tab(b, a), xs[1], c.ranks[1], xs[2], c.ranks[2])
                  [] c.f = "det" -> Map2(LAMBDA a, b : 2 * a + b, xs[1], c.ranks[1], xs[2], c.ranks[2])
(* Contract *)
LaneWise(c) == [l \in 1..L |-> Apply(c, [j \in DOMAIN c.args |-> Slice(c.args[j], c.axes[j], l)])]
(* Impl after the repair: vmap of the keyful sampler over the lanes with the site's in_axes; unbatched sites
   (every axis "none") draw axis_size i.i.d. values from one key: sample_shape = (axis_size,) + ss              *)
RuleNew(c) == LaneWise(c)
(* Impl before the repair, for the sampling sites: parameters as they are, TFP broadcasting, axis 0 declared *)
RuleOld(c) ==
  IF c.f \notin {"echo", "echo2"} THEN LaneWise(c)
  ELSE IF \A j \in DOMAIN c.axes : c.axes[j] = 9 THEN LaneWise(c)
  ELSE IF c.f = "echo" THEN Echo(c.args[1], c.ss)       \* (ss,) + batched shape, whatever axis the lanes are on
  ELSE "broadcast-error-or-mispaired"

VARIABLE ci
Init == ci \in DOMAIN CaseSeq
Next == UNCHANGED ci
Spec == Init /\ [][Next]_ci
c == CaseSeq[ci]
RuleOK == RuleNew(c) = LaneWise(c)
RuleOldOK == RuleOld(c) = LaneWise(c)        \* expected to FAIL (documents the pre-repair defect)
Export == TLCGet("level") >= 0 /\ JsonSerialize(IOEnv.GX_OUT \o "/mvmap.json",
             [i \in DOMAIN CaseSeq |-> LET k == CaseSeq[i] IN
                 [f |-> k.f, ss |-> k.ss, args |-> k.args, ranks |-> k.ranks,
                  axes |-> [j \in DOMAIN k.axes |-> IF k.axes[j] = 0 THEN "0" ELSE IF k.axes[j] = 1 THEN "1" ELSE "none"],
                  expect |-> LaneWise(k)]])
=============================================================================
