SPECIFICATION Spec
CONSTANTS ModelName = "sparse3"
 T = 3
INVARIANT FilterOK
INVARIANT KalmanOK
INVARIANT PrintHMM
INVARIANT PrintKalman
