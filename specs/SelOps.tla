------------------------------ MODULE SelOps ------------------------------
(* Selection expressions as data, their Contract denotation Den (Boolean algebra on address paths)
   and the code-shaped Impl operators Match / LeafHit / SelectedOp of genjax.core.*Sel.
   Shared by Selection.tla (C16), GFI.tla (C04, C05, C09) and the trace specs.               *)
EXTENDS Naturals, Sequences, SequencesExt

A(k) == [k |-> k]
StrS(x) == [k |-> "str", s |-> x]
TupS(t) == [k |-> "tup", t |-> t]
DictS(d) == [k |-> "dict", d |-> d]
NotS(x) == [k |-> "not", x |-> x]
OrS(x, y) == [k |-> "or", x |-> x, y |-> y]
AndS(x, y) == [k |-> "and", x |-> x, y |-> y]

-----------------------------------------------------------------------------
(* Contract: the Boolean algebra on paths *)
RECURSIVE Den(_, _)
Den(s, p) ==
  CASE s.k = "all"  -> TRUE
    [] s.k = "none" -> FALSE
    [] s.k = "str"  -> Len(p) >= 1 /\ p[1] = s.s
    [] s.k = "tup"  -> IsPrefix(s.t, p)
    [] s.k = "dict" -> Len(p) >= 1 /\ p[1] \in DOMAIN s.d /\ Den(s.d[p[1]], Tail(p))
    [] s.k = "not"  -> ~Den(s.x, p)
    [] s.k = "or"   -> Den(s.x, p) \/ Den(s.y, p)
    [] s.k = "and"  -> Den(s.x, p) /\ Den(s.y, p)

-----------------------------------------------------------------------------
(* Impl: match returns <<hit, remainder>>, exactly as the *Sel classes are written *)
RECURSIVE Match(_, _)
Match(s, a) ==
  CASE s.k = "all"  -> <<TRUE, s>>
    [] s.k = "none" -> <<FALSE, s>>
    [] s.k = "str"  -> IF a = s.s THEN <<TRUE, A("all")>> ELSE <<FALSE, A("none")>>
    [] s.k = "tup"  -> IF Len(s.t) = 0 THEN <<FALSE, A("none")>>
                       ELSE IF a = s.t[1]
                            THEN IF Len(s.t) = 1 THEN <<TRUE, A("all")>>
                                 ELSE <<TRUE, TupS(Tail(s.t))>>
                            ELSE <<FALSE, A("none")>>
    [] s.k = "dict" -> IF a \in DOMAIN s.d THEN <<TRUE, s.d[a]>> ELSE <<FALSE, A("none")>>
    [] s.k = "not"  -> LET m == Match(s.x, a) IN <<~m[1], NotS(m[2])>>
    [] s.k = "or"   -> LET m == Match(s.x, a) n == Match(s.y, a) IN <<m[1] \/ n[1], OrS(m[2], n[2])>>
    [] s.k = "and"  -> LET m == Match(s.x, a) n == Match(s.y, a) IN <<m[1] /\ n[1], AndS(m[2], n[2])>>

(* `() in s` : match against the empty tuple address, hit flag only *)
RECURSIVE LeafHit(_)
LeafHit(s) ==
  CASE s.k = "all" -> TRUE [] s.k = "none" -> FALSE [] s.k = "str" -> FALSE
    [] s.k = "tup" -> FALSE   \* a non-empty tuple never equals (): path[0] == () is false
    [] s.k = "dict" -> FALSE
    [] s.k = "not" -> ~LeafHit(s.x) [] s.k = "or" -> LeafHit(s.x) \/ LeafHit(s.y)
    [] s.k = "and" -> LeafHit(s.x) /\ LeafHit(s.y)

(* what Fn's Regenerate handler does: thread the remainder down the path, decide at the leaf *)
RECURSIVE SelectedOp(_, _)
SelectedOp(s, p) == IF p = <<>> THEN LeafHit(s) ELSE SelectedOp(Match(s, p[1])[2], Tail(p))

=============================================================================
