SPECIFICATION Spec
CONSTANTS MaxSteps = 3
          Level = 1
          WithOpaque = TRUE
INVARIANT Pure
INVARIANT NoHidden
INVARIANT RootsApart
INVARIANT Distinct
POSTCONDITION Export
