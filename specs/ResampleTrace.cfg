SPECIFICATION Spec
INVARIANT Done
