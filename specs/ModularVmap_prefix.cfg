SPECIFICATION Spec
CONSTANTS L = 3
 M = 2
INVARIANT RuleOldOK
