SPECIFICATION Spec
CONSTANTS
  SiteKinds = {"enum", "mvd", "penum"}
  Threaded = TRUE
  MaxT = 2
  MaxF = 1
  Shapes = {"C", "SC", "CS"}
INVARIANT Unbiased
INVARIANT EnumExact
