SPECIFICATION Spec
CONSTANTS
  SiteKinds = {"enum", "mvd", "penum"}
  Threaded = TRUE
  MaxT = 2
  MaxF = 1
  Shapes = {"C", "SC", "CS", "CC"}
INVARIANT Unbiased
INVARIANT EnumExact
