SPECIFICATION Spec
CONSTANTS ModelName = "dense2"
 T = 1
INVARIANT FilterOK
INVARIANT KalmanOK
INVARIANT PrintHMM
INVARIANT PrintKalman
