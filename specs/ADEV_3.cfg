SPECIFICATION Spec
CONSTANTS MaxSites = 3
INVARIANT Unbiased
INVARIANT EnumExact
