SPECIFICATION Spec
CONSTANTS Depth = 2
INVARIANT ReplicationDefect
