--------------------------------- MODULE VI ---------------------------------
(* C17: the ELBO objective is unbiased, tight at the posterior, and ascended by VI.

   Part 1 - Bernoulli / Bernoulli (exact in the ring Q + Q ln2 + Q ln3):
       target  z ~ flip(1/2), x ~ flip(3/4 if z else 1/4), observed x = 1      posterior P(z=1 | x) = 3/4, evidence 1/2
       family  q_theta(z) = flip(theta) through flip_enum | flip_mvd | REINFORCE(flip)
       ElboDraw(z, theta) = ln p(x, z) - ln q_theta(z); tight: theta = 3/4 => ElboDraw = ln p(x) for BOTH draws;
       bound: E_q[ElboDraw] <= ln p(x) otherwise; gradient: the probability-weighted estimator tangents = d/dtheta ELBO.
   Part 2 - Gaussian / Gaussian, the optimisation loop (exact in Q):
       target  z ~ N(0,1), x ~ N(z, 1/3) observed x = y;  family N(mu, s), params (mu, log s), reparameterised, noise eps == 0:
       the gradient is then the rational map (3y - 4 mu, 1), so optimize_vi / elbo_vi must produce
       mu_{k+1} = mu_k + lr (3y - 4 mu_k), l_{k+1} = l_k + lr; history[k] = iterate after step k; final = history[n].
   Part 3 - tightness of the Gaussian instance in eps: with (mu, s) = (3y/4, 1/2) the eps-dependent part of
       ln p(y, mu + s eps) - ln q(mu + s eps) vanishes identically (checked on a rational grid).                          *)
EXTENDS Rational, Sequences, SequencesExt, FiniteSets, FiniteSetsExt, TLC, TLCExt

(* ---- the log ring: <<c0, c2, c3>> = c0 + c2 ln2 + c3 ln3 ---- *)
L(c0, c2, c3) == <<c0, c2, c3>>
LAdd(a, b) == <<RAdd(a[1], b[1]), RAdd(a[2], b[2]), RAdd(a[3], b[3])>>
LSub(a, b) == <<RSub(a[1], b[1]), RSub(a[2], b[2]), RSub(a[3], b[3])>>
LScale(q, a) == <<RMul(q, a[1]), RMul(q, a[2]), RMul(q, a[3])>>
LZero == L(R(0), R(0), R(0))
(* ln of the rationals that occur: 2^a 3^b *)
Ln(q) == CASE q = Q(1, 8) -> L(R(0), R(0 - 3), R(0)) [] q = Q(1, 4) -> L(R(0), R(0 - 2), R(0)) [] q = Q(3, 8) -> L(R(0), R(0 - 3), R(1))
           [] q = Q(1, 2) -> L(R(0), R(0 - 1), R(0)) [] q = Q(3, 4) -> L(R(0), R(0 - 2), R(1))
(* order test by interval evaluation: ln2 in [0.693147, 0.693148], ln3 in [1.098612, 1.098613]  (scaled by 10^6) *)
Lo(a) == LET t2 == IF a[2][1] >= 0 THEN 693147 ELSE 693148 t3 == IF a[3][1] >= 0 THEN 1098612 ELSE 1098613
         IN RAdd(RAdd(RMul(a[1], R(1000000)), RMul(a[2], R(t2))), RMul(a[3], R(t3)))
Hi(a) == LET t2 == IF a[2][1] >= 0 THEN 693148 ELSE 693147 t3 == IF a[3][1] >= 0 THEN 1098613 ELSE 1098612
         IN RAdd(RAdd(RMul(a[1], R(1000000)), RMul(a[2], R(t2))), RMul(a[3], R(t3)))
LLeq(a, b) == a = b \/ RLess(Hi(a), Lo(b))          \* certainly a <= b

(* ---- Part 1 ---- *)
Thetas == {Q(1, 4), Q(1, 2), Q(3, 4)}
PJoint(z) == IF z THEN Q(3, 8) ELSE Q(1, 8)
LogEvidence == Ln(Q(1, 2))
Qz(th, z) == IF z THEN th ELSE RSub(R(1), th)
ElboDraw(th, z) == LSub(Ln(PJoint(z)), Ln(Qz(th, z)))
DLnQ(th, z) == IF z THEN RInv(th) ELSE RNeg(RInv(RSub(R(1), th)))                  \* d/dtheta ln q_theta(z)
ElboDrawT(th, z) == L(RNeg(DLnQ(th, z)), R(0), R(0))                               \* d/dtheta ElboDraw (the -ln q term)
Elbo(th) == LAdd(LScale(th, ElboDraw(th, TRUE)), LScale(RSub(R(1), th), ElboDraw(th, FALSE)))
ExactGrad(th) == LSub(ElboDraw(th, TRUE), ElboDraw(th, FALSE))                     \* the d ln q terms cancel in expectation
(* estimator tangent for one draw z, by primitive *)
EstT(kind, th, z) ==
  CASE kind = "enum" -> LAdd(LSub(ElboDraw(th, TRUE), ElboDraw(th, FALSE)),
                             LAdd(LScale(th, ElboDrawT(th, TRUE)), LScale(RSub(R(1), th), ElboDrawT(th, FALSE))))
    [] kind = "rf"   -> LAdd(ElboDrawT(th, z), LScale(DLnQ(th, z), ElboDraw(th, z)))
    [] kind = "mvd"  -> LAdd(ElboDrawT(th, z), LSub(ElboDraw(th, TRUE), ElboDraw(th, FALSE)))
EstP(kind, th, z) == IF kind = "enum" THEN Elbo(th) ELSE ElboDraw(th, z)

(* ---- Part 2 ---- *)
Lrs == {Q(1, 8), Q(1, 4)}
Ysv == {R(1), Q(1, 2)}
Starts == {<<Q(1, 2), R(0)>>, <<R(0), R(0 - 1)>>}
StepG(p, y, lr) == <<RAdd(p[1], RMul(lr, RSub(RMul(R(3), y), RMul(R(4), p[1])))), RAdd(p[2], lr)>>

VARIABLES part, th, kind, lr, y, params, k, nmax, history
vars == <<part, th, kind, lr, y, params, k, nmax, history>>
Init == \/ /\ part = "bern" /\ th \in Thetas /\ kind \in {"enum", "rf", "mvd"}
           /\ lr = R(0) /\ y = R(0) /\ params = <<R(0), R(0)>> /\ k = 0 /\ nmax = 0 /\ history = <<>>
        \/ /\ part = "loop" /\ lr \in Lrs /\ y \in Ysv /\ params \in Starts /\ nmax \in 1..5
           /\ th = R(0) /\ kind = "none" /\ k = 0 /\ history = <<>>
(* one iteration of the scan in optimize_vi *)
Step == /\ part = "loop" /\ k < nmax
        /\ params' = StepG(params, y, lr) /\ history' = Append(history, StepG(params, y, lr)) /\ k' = k + 1
        /\ UNCHANGED <<part, th, kind, lr, y, nmax>>
Next == Step
Spec == Init /\ [][Next]_vars

(* ---- Contract ---- *)
Tight == part = "bern" => (th = Q(3, 4) => \A z \in BOOLEAN : ElboDraw(th, z) = LogEvidence)
Bound == part = "bern" => LLeq(Elbo(th), LogEvidence) /\ (th # Q(3, 4) => Elbo(th) # LogEvidence)
ValueUnbiased == part = "bern" => LAdd(LScale(th, EstP(kind, th, TRUE)), LScale(RSub(R(1), th), EstP(kind, th, FALSE))) = Elbo(th)
GradUnbiased == part = "bern" => LAdd(LScale(th, EstT(kind, th, TRUE)), LScale(RSub(R(1), th), EstT(kind, th, FALSE))) = ExactGrad(th)
(* gradient ascent: the ELBO's exact gradient has the sign that moves theta towards the posterior 3/4 *)
Ascent == part = "bern" => (RLess(th, Q(3, 4)) => ~LLeq(ExactGrad(th), LZero)) /\ (th = Q(3, 4) => ExactGrad(th) = LZero)
LoopOK == part = "loop" => /\ Len(history) = k
                           /\ (k > 0 => history[k] = params)
                           /\ \A j \in 2..k : history[j] = StepG(history[j - 1], y, lr)
(* Part 3: eps-dependent part of ln p(y, z) - ln q(z) at the posterior, z = mu + s eps: -z^2/2 - (3/2)(y - z)^2 + eps^2/2 *)
GTerm(yy, mu, s, e) == LET z == RAdd(mu, RMul(s, e)) IN
   RAdd(RSub(RNeg(RMul(Q(1, 2), RSq(z))), RMul(Q(3, 2), RSq(RSub(yy, z)))), RMul(Q(1, 2), RSq(e)))
GaussTight == \A yy \in Ysv : \A e \in {R(0 - 2), R(0 - 1), Q(1, 2), R(1), R(3)} :
                 GTerm(yy, RMul(Q(3, 4), yy), Q(1, 2), e) = GTerm(yy, RMul(Q(3, 4), yy), Q(1, 2), R(0))
PrintBern == part = "bern" => PrintT(<<"BERN", kind, th, [z \in BOOLEAN |-> [p |-> EstP(kind, th, z), t |-> EstT(kind, th, z), d |-> ElboDraw(th, z)]],
                                       Elbo(th), ExactGrad(th)>>)
PrintLoop == (part = "loop" /\ k = nmax) => PrintT(<<"LOOP", lr, y, nmax, history>>)
=============================================================================
