SPECIFICATION Spec
CONSTANTS N = 5
 MaxW = 2
INVARIANT FloorCeil
INVARIANT NeverZero
INVARIANT SystematicUnbiased
INVARIANT CategoricalUnbiased
INVARIANT MoveOK
INVARIANT PrintCase
