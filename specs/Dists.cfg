SPECIFICATION Spec
INVARIANT FiniteNormalised
INVARIANT GeomTail
INVARIANT RingSanity
POSTCONDITION Export
