SPECIFICATION Spec
CONSTANTS
  Progs = {"vd"}
  MaxOps = 3
  OpKinds = {"simulate", "generate", "update", "regenerate", "mh", "jit", "resample"}
  MaxCons = 1
  UpdArgs = "all"
  SimScripts = "few"
INVARIANT Coherent
INVARIANT UpdateOK
INVARIANT RegenerateOK
INVARIANT MHOK
INVARIANT GenerateOK
INVARIANT ObservedKept
INVARIANT Telescoping
