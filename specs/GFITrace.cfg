SPECIFICATION Spec
INVARIANT Done
