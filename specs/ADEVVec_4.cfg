SPECIFICATION Spec
CONSTANTS M = 4
INVARIANT Unbiased
INVARIANT PrintCase
