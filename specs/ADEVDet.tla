------------------------------ MODULE ADEVDet ------------------------------
(* C15: on deterministic code the ADEV transformation is ordinary forward-mode AD, for any argument shape.

   Expressions over one argument X (a scalar, a vector(2), a 2x2 matrix or the pytree {a: scalar, b: vector(2)}):
      <<"x">> | <<"xa">> | <<"xb">>           the argument (or a field of the pytree argument)
      <<"c", q>>                              rational constant
      <<"add", e, f>> <<"mul", e, f>>         element-wise with scalar broadcasting
      <<"neg", e>> <<"sq", e>> <<"pow3", e>> <<"divc", e, q>>
      <<"sum", e>> <<"idx", e, i>> <<"idx2", e, i, j>> <<"slice1", e>>    reductions / indexing (slice1 = e[0:1])
      <<"T", e>> <<"dot", e, f>> <<"matmul", e, f>>                       linear algebra (dot: vector . vector)
      <<"where", e, q, f, g>>                 where(e > q, f, g)     (e scalar; non-differentiable predicate)
      <<"cond", e, q, f, g>>                  lax.cond(e > q, f, g)  (either branch taken)
      <<"intfloor", e>>                       astype(int).astype(float) of a scalar: an integer intermediate (zero tangent)
      <<"cond2mul", e, q, f1, f2, g1, g2>>    (a, b) = lax.cond(e > q, (f1, f2), (g1, g2)); a * b    (a cond with two outputs)
      <<"switch3", e, f0, f1, f2>>            lax.switch(clip(int(e), 0, 2), [f0, f1, f2])
      <<"condc", e, q, f, q2>>                lax.cond(e > q, f, lambda: q2)   (a branch with a literal output, code after the cond)
   Contract = Impl here: dual-number semantics (the standard JVP rules) evaluated exactly in rationals; the binding compares
   the real jvp_estimate / grad_estimate / estimate with these values (and with jax.jvp / jax.grad, the oracle the property names). *)
EXTENDS Rational, Sequences, SequencesExt, FiniteSets, TLC, TLCExt, Json, IOUtils

(* values: [r |-> rank 0|1|2, d |-> rational | seq | seq of seq]; duals: [p |-> value, t |-> value] *)
S(q) == [r |-> 0, d |-> q]
Vec(s) == [r |-> 1, d |-> s]
Mat(m) == [r |-> 2, d |-> m]
Map1(F(_), v) == CASE v.r = 0 -> S(F(v.d))
                   [] v.r = 1 -> Vec([i \in DOMAIN v.d |-> F(v.d[i])])
                   [] v.r = 2 -> Mat([i \in DOMAIN v.d |-> [j \in DOMAIN v.d[i] |-> F(v.d[i][j])]])
Map2(F(_, _), a, b) ==
  CASE a.r = 0 /\ b.r = 0 -> S(F(a.d, b.d))
    [] a.r = 0 -> Map1(LAMBDA y : F(a.d, y), b)
    [] b.r = 0 -> Map1(LAMBDA y : F(y, b.d), a)
    [] a.r = 1 -> Vec([i \in DOMAIN a.d |-> F(a.d[i], b.d[i])])
    [] a.r = 2 -> Mat([i \in DOMAIN a.d |-> [j \in DOMAIN a.d[i] |-> F(a.d[i][j], b.d[i][j])]])
VAdd(a, b) == Map2(RAdd, a, b)
VMul(a, b) == Map2(RMul, a, b)
VNeg(a) == Map1(RNeg, a)
VZeroLike(a) == Map1(LAMBDA y : R(0), a)
SumSeqR(s) == FoldLeft(RAdd, R(0), s)
VSum(a) == CASE a.r = 0 -> a [] a.r = 1 -> S(SumSeqR(a.d)) [] a.r = 2 -> S(SumSeqR([i \in DOMAIN a.d |-> SumSeqR(a.d[i])]))
VT(a) == Mat([i \in 1..2 |-> [j \in 1..2 |-> a.d[j][i]]])
VMatMul(a, b) == Mat([i \in 1..2 |-> [j \in 1..2 |-> RAdd(RMul(a.d[i][1], b.d[1][j]), RMul(a.d[i][2], b.d[2][j]))]])
VDot(a, b) == S(SumSeqR([i \in DOMAIN a.d |-> RMul(a.d[i], b.d[i])]))
Floor(q) == IF q[1] >= 0 THEN R(q[1] \div q[2]) ELSE R(0 - ((0 - q[1] + q[2] - 1) \div q[2]))     \* astype(int) truncates toward zero for these grids only when q >= 0; negative values use ceil below
Trunc(q) == IF q[1] >= 0 THEN R(q[1] \div q[2]) ELSE R(0 - ((0 - q[1]) \div q[2]))

RECURSIVE Ev(_, _)
Ev(e, X) ==      \* X: dual of the argument (for the pytree argument: [a |-> dual, b |-> dual])
  LET k == e[1] IN
  CASE k = "x"  -> X
    [] k = "xa" -> X.a
    [] k = "xb" -> X.b
    [] k = "c"  -> [p |-> S(e[2]), t |-> S(R(0))]
    [] k = "add" -> LET a == Ev(e[2], X) b == Ev(e[3], X) IN [p |-> VAdd(a.p, b.p), t |-> VAdd(a.t, b.t)]
    [] k = "mul" -> LET a == Ev(e[2], X) b == Ev(e[3], X) IN [p |-> VMul(a.p, b.p), t |-> VAdd(VMul(a.t, b.p), VMul(a.p, b.t))]
    [] k = "neg" -> LET a == Ev(e[2], X) IN [p |-> VNeg(a.p), t |-> VNeg(a.t)]
    [] k = "sq"  -> LET a == Ev(e[2], X) IN [p |-> VMul(a.p, a.p), t |-> VMul(S(R(2)), VMul(a.p, a.t))]
    [] k = "pow3" -> LET a == Ev(e[2], X) IN [p |-> VMul(a.p, VMul(a.p, a.p)), t |-> VMul(S(R(3)), VMul(VMul(a.p, a.p), a.t))]
    [] k = "divc" -> LET a == Ev(e[2], X) IN [p |-> VMul(a.p, S(RInv(e[3]))), t |-> VMul(a.t, S(RInv(e[3])))]
    [] k = "sum" -> LET a == Ev(e[2], X) IN [p |-> VSum(a.p), t |-> VSum(a.t)]
    [] k = "idx" -> LET a == Ev(e[2], X) IN [p |-> S(a.p.d[e[3]]), t |-> S(a.t.d[e[3]])]
    [] k = "idx2" -> LET a == Ev(e[2], X) IN [p |-> S(a.p.d[e[3]][e[4]]), t |-> S(a.t.d[e[3]][e[4]])]
    [] k = "slice1" -> LET a == Ev(e[2], X) IN [p |-> Vec(<<a.p.d[1]>>), t |-> Vec(<<a.t.d[1]>>)]
    [] k = "T" -> LET a == Ev(e[2], X) IN [p |-> VT(a.p), t |-> VT(a.t)]
    [] k = "dot" -> LET a == Ev(e[2], X) b == Ev(e[3], X) IN [p |-> VDot(a.p, b.p), t |-> VAdd(VDot(a.t, b.p), VDot(a.p, b.t))]
    [] k = "matmul" -> LET a == Ev(e[2], X) b == Ev(e[3], X) IN [p |-> VMatMul(a.p, b.p), t |-> VAdd(VMatMul(a.t, b.p), VMatMul(a.p, b.t))]
    [] k \in {"where", "cond"} -> LET c == Ev(e[2], X) IN IF RLess(e[3], c.p.d) THEN Ev(e[4], X) ELSE Ev(e[5], X)
    [] k = "intfloor" -> LET a == Ev(e[2], X) IN [p |-> S(Trunc(a.p.d)), t |-> S(R(0))]
    (* a cond whose branches return TWO values (a, b) = cond(e > q, (f1, f2), (g1, g2)), used as a * b *)
    [] k = "cond2mul" -> LET c == Ev(e[2], X)
                             a == IF RLess(e[3], c.p.d) THEN Ev(e[4], X) ELSE Ev(e[6], X)
                             b == IF RLess(e[3], c.p.d) THEN Ev(e[5], X) ELSE Ev(e[7], X)
                         IN [p |-> VMul(a.p, b.p), t |-> VAdd(VMul(a.t, b.p), VMul(a.p, b.t))]
    (* a cond one of whose branches returns a CONSTANT (a literal output, independent of the operands): cond(e > q, f, q2) *)
    [] k = "condc" -> LET c == Ev(e[2], X) IN IF RLess(e[3], c.p.d) THEN Ev(e[4], X) ELSE [p |-> S(e[5]), t |-> S(R(0))]
    (* lax.switch over three branches, index = clip(astype(int)(e), 0, 2) *)
    [] k = "switch3" -> LET c == Trunc(Ev(e[2], X).p.d)
                            i == IF RLess(c, R(1)) THEN 0 ELSE IF RLess(c, R(2)) THEN 1 ELSE 2
                        IN Ev(e[3 + i], X)
    (* primitives whose differentiable operand is followed by integer operands (computed index, index array, integer bounds) *)
    [] k = "dynidx" -> LET a == Ev(e[2], X)
                           i == CHOOSE j \in DOMAIN a.p.d : (\A m \in DOMAIN a.p.d : ~RLess(a.p.d[j], a.p.d[m])) /\ (\A m \in 1..(j - 1) : RLess(a.p.d[m], a.p.d[j]))
                       IN [p |-> S(a.p.d[i]), t |-> S(a.t.d[i])]                                      \* x[argmax(x)]
    [] k = "take21" -> LET a == Ev(e[2], X) IN [p |-> Vec(<<a.p.d[2], a.p.d[1]>>), t |-> Vec(<<a.t.d[2], a.t.d[1]>>)]   \* take(x, [1, 0])
    [] k = "clip11" -> LET a == Ev(e[2], X)                                                            \* clip(x, -1, 1), integer bounds
                           inside(q) == RLess(R(0 - 1), q) /\ RLess(q, R(1))
                           cl(q) == IF RLess(q, R(0 - 1)) THEN R(0 - 1) ELSE IF RLess(R(1), q) THEN R(1) ELSE q
                       IN [p |-> Map1(cl, a.p), t |-> Map2(LAMBDA pp, tt : IF inside(pp) THEN tt ELSE R(0), a.p, a.t)]

Xs == <<"x">>
C(n, d) == <<"c", Q(n, d)>>
(* the corpus: [name, argtype, expr] - every expression returns a scalar (so that grad is defined) *)
Corpus == <<
  [n |-> "s_poly",   ty |-> "s", e |-> <<"add", <<"mul", Xs, Xs>>, <<"mul", C(3, 1), Xs>>>>],
  [n |-> "s_pow3",   ty |-> "s", e |-> <<"divc", <<"pow3", <<"add", Xs, C(1, 2)>>>>, Q(2, 1)>>],
  [n |-> "s_negsq",  ty |-> "s", e |-> <<"neg", <<"sq", <<"add", Xs, C(0 - 1, 1)>>>>>>],
  [n |-> "s_where",  ty |-> "s", e |-> <<"where", Xs, Q(1, 2), <<"sq", Xs>>, <<"mul", C(2, 1), Xs>>>>],
  [n |-> "s_cond",   ty |-> "s", e |-> <<"cond", Xs, Q(0, 1), <<"mul", Xs, Xs>>, <<"neg", Xs>>>>],
  [n |-> "s_int",    ty |-> "s", e |-> <<"mul", Xs, <<"intfloor", <<"add", Xs, C(2, 1)>>>>>>],
  [n |-> "s_cond2",  ty |-> "s", e |-> <<"add", <<"cond2mul", Xs, Q(0, 1), <<"sq", Xs>>, <<"mul", C(3, 1), Xs>>, <<"neg", Xs>>, <<"pow3", Xs>>>>, Xs>>],
  [n |-> "s_condc",  ty |-> "s", e |-> <<"add", <<"mul", <<"condc", Xs, Q(0, 1), <<"sq", Xs>>, Q(3, 2)>>, Xs>>, Xs>>],
  [n |-> "v_condc",  ty |-> "v", e |-> <<"mul", <<"condc", <<"idx", Xs, 1>>, Q(0, 1), <<"dot", Xs, Xs>>, Q(2, 1)>>, <<"sum", Xs>>>>],
  [n |-> "s_switch", ty |-> "s", e |-> <<"mul", <<"switch3", <<"add", Xs, C(1, 1)>>, <<"sq", Xs>>, <<"mul", C(2, 1), Xs>>, <<"pow3", Xs>>>>, Xs>>],
  [n |-> "s_clip",   ty |-> "s", e |-> <<"mul", <<"clip11", <<"mul", Xs, C(3, 4)>>>>, Xs>>],
  [n |-> "v_dynidx", ty |-> "v", e |-> <<"mul", <<"dynidx", Xs>>, <<"idx", Xs, 2>>>>],
  [n |-> "v_take",   ty |-> "v", e |-> <<"dot", <<"take21", Xs>>, <<"add", Xs, C(1, 1)>>>>],
  [n |-> "v_clip",   ty |-> "v", e |-> <<"sum", <<"mul", <<"clip11", <<"mul", Xs, C(3, 4)>>>>, Xs>>>>],
  [n |-> "v_sumsq",  ty |-> "v", e |-> <<"sum", <<"mul", Xs, Xs>>>>],
  [n |-> "v_idx",    ty |-> "v", e |-> <<"mul", <<"idx", Xs, 2>>, <<"idx", Xs, 1>>>>],
  [n |-> "v_dot",    ty |-> "v", e |-> <<"dot", Xs, <<"add", Xs, C(1, 1)>>>>],
  [n |-> "v_slice",  ty |-> "v", e |-> <<"sum", <<"mul", <<"slice1", Xs>>, C(3, 1)>>>>],
  [n |-> "v_bcast",  ty |-> "v", e |-> <<"sum", <<"mul", Xs, <<"idx", Xs, 1>>>>>>],
  [n |-> "m_gram",   ty |-> "m", e |-> <<"sum", <<"matmul", <<"T", Xs>>, Xs>>>>],
  [n |-> "m_T",      ty |-> "m", e |-> <<"sum", <<"mul", <<"T", Xs>>, Xs>>>>],
  [n |-> "m_idx",    ty |-> "m", e |-> <<"mul", <<"idx2", Xs, 1, 2>>, <<"idx2", Xs, 2, 1>>>>],
  [n |-> "p_mix",    ty |-> "p", e |-> <<"add", <<"mul", <<"xa">>, <<"idx", <<"xb">>, 1>>>>, <<"sum", <<"xb">>>>>>],
  [n |-> "p_cond",   ty |-> "p", e |-> <<"cond", <<"xa">>, Q(0, 1), <<"dot", <<"xb">>, <<"xb">>>>, <<"mul", <<"xa">>, <<"idx", <<"xb">>, 2>>>>>>] >>

Pts == {Q(0 - 1, 1), Q(1, 2), Q(2, 1)}
(* argument points and tangent seeds per type *)
ArgsOf(ty) ==
  CASE ty = "s" -> {[p |-> S(a), t |-> S(b)] : a \in Pts, b \in {R(1), Q(0 - 1, 2)}}
    [] ty = "v" -> {[p |-> Vec(<<a, b>>), t |-> Vec(s)] : a \in Pts, b \in {Q(1, 2), R(0 - 1)}, s \in {<<R(1), R(0)>>, <<R(0), R(1)>>, <<Q(1, 2), R(2)>>}}
    [] ty = "m" -> {[p |-> Mat(<<<<a, R(1)>>, <<Q(1, 2), b>>>>), t |-> Mat(s)] : a \in {R(2), Q(0 - 1, 2)}, b \in {R(1), R(0 - 1)},
                     s \in {<<<<R(1), R(0)>>, <<R(0), R(0)>>>>, <<<<R(0), R(1)>>, <<R(0), R(0)>>>>, <<<<R(0), R(0)>>, <<R(1), R(0)>>>>, <<<<R(0), R(0)>>, <<R(0), R(1)>>>>,
                            <<<<R(1), R(2)>>, <<Q(1, 2), R(0 - 1)>>>>}}
    [] ty = "p" -> {[a |-> [p |-> S(a), t |-> S(ta)], b |-> [p |-> Vec(<<b, R(1)>>), t |-> Vec(tb)]] :
                     a \in {R(2), R(0 - 1)}, b \in {Q(1, 2), R(2)}, ta \in {R(1), R(0)}, tb \in {<<R(0), R(0)>>, <<R(1), R(0)>>, <<R(0), R(1)>>}}

VARIABLES ci, arg, res
vars == <<ci, arg, res>>
Init == /\ ci \in DOMAIN Corpus /\ arg \in ArgsOf(Corpus[ci].ty) /\ res = [done |-> FALSE]
Eval == /\ ~res.done /\ res' = [done |-> TRUE] @@ Ev(Corpus[ci].e, arg) /\ UNCHANGED <<ci, arg>>
Next == Eval
Spec == Init /\ [][Next]_vars
(* linearity of the tangent in the seed is the forward-mode contract: checked on the scalar programs by doubling the seed *)
Linear == (res.done /\ Corpus[ci].ty = "s") =>
            Ev(Corpus[ci].e, [p |-> arg.p, t |-> VMul(S(R(2)), arg.t)]).t = VMul(S(R(2)), res.t)
ScalarOut == res.done => res.p.r = 0 /\ res.t.r = 0
PrintCase == res.done => PrintT(<<"CASE", Corpus[ci].n, Corpus[ci].ty, arg, res.p.d, res.t.d>>)
ExportCorpus == TLCGet("level") >= 0 /\ JsonSerialize(IOEnv.GX_OUT \o "/adevdet.json", Corpus)
=============================================================================
