----------------------------- MODULE StateInterp -----------------------------
(* C19: state/save is transparent and collects exactly what was saved.

   Programs (statement lists):  Save(name, c) | Ns(ns, body) | Scan(body, n) | Vmap(body, n) | Call(body)
   The value saved by Save(name, c) under enclosing loop indices <<i1, .., ik>> (outermost first) is
   c + 10*i1 + 100*i2 + ...  (the harness builds the same arithmetic), so stacking / batching order is observable.

   Contract : Collected(prog) - name path |-> tensor (nested sequences, one level per enclosing scan / vmap,
              outermost first); a later write to the same path replaces the earlier one.
   Impl     : Interp - genjax.state.State: namespace_stack, collected_state; Save writes at the current namespace
              path; a scan body is run by a FRESH interpreter per iteration, the per-iteration dictionaries are
              stacked and merged into collected_state - at the current namespace path, recursively (after the
              repair); vmap batches values inside the same interpreter.
              InterpOld - the merge before the repair: at the ROOT, replacing whole same-named sub-dictionaries.   *)
EXTENDS Naturals, Sequences, SequencesExt, FiniteSets, TLC, TLCExt, Json, IOUtils

CONSTANTS Level

Save(nm, c) == [k |-> "save", name |-> nm, c |-> c, d |-> 0]
(* x, y = tag_state(value, d, name=nm): TWO values under one name, the second a constant d > 0 that does not depend on any
   enclosing loop (under a vmap it is NOT batched while the first one is) *)
Save2(nm, c, d) == [k |-> "save", name |-> nm, c |-> c, d |-> d]
Ns(ns, b) == [k |-> "ns", ns |-> ns, body |-> b]
Scan(b, n) == [k |-> "scan", body |-> b, n |-> n]
Vmap(b, n) == [k |-> "vmap", body |-> b, n |-> n]
Call(b) == [k |-> "call", body |-> b]

S0 == {Save("a", 1), Save("b", 2)}
P0 == {<<s>> : s \in S0} \cup {<<Save("a", 1), Save("b", 2)>>, <<Save("a", 1), Save("a", 3)>>}
S1 == S0 \cup {Ns("n", p) : p \in P0} \cup {Scan(p, 2) : p \in P0} \cup {Vmap(p, 2) : p \in {<<Save("a", 1)>>, <<Save("a", 1), Save("b", 2)>>}}
         \cup {Call(<<Save("b", 2)>>)}
P1 == {<<s>> : s \in S1} \cup {<<s, t>> : s \in S1, t \in {Save("a", 4), Save("b", 5)}} \cup {<<t, s>> : s \in S1, t \in {Save("a", 4)}}
S2 == {Ns("n", <<Scan(<<Save("a", 1)>>, 2)>>),                       \* namespace around a scan
       Ns("n", <<Save("b", 2), Scan(<<Save("a", 1)>>, 2)>>),
       Scan(<<Ns("n", <<Save("a", 1)>>)>>, 2),                       \* namespace inside a scan
       Scan(<<Scan(<<Save("a", 1)>>, 2)>>, 2),                       \* nested scans
       Scan(<<Scan(<<Save("a", 1)>>, 2), Save("b", 2)>>, 2),
       Ns("n", <<Ns("m", <<Save("a", 1)>>)>>),
       Ns("n", <<Scan(<<Ns("m", <<Save("a", 1)>>)>>, 2)>>),
       Vmap(<<Scan(<<Save("a", 1)>>, 2)>>, 2),                       \* scan under vmap, vmap inside scan
       Scan(<<Vmap(<<Save("a", 1)>>, 2)>>, 2),
       Vmap(<<Ns("n", <<Save("a", 1)>>)>>, 2),
       Ns("n", <<Vmap(<<Save("a", 1)>>, 2)>>),
       Call(<<Ns("n", <<Scan(<<Save("a", 1)>>, 2)>>)>>),
       Vmap(<<Vmap(<<Save("a", 1)>>, 2)>>, 2),                       \* nested vmaps (the tag is batched twice)
       Vmap(<<Vmap(<<Ns("n", <<Save("a", 1)>>)>>, 2)>>, 2),
       Scan(<<Vmap(<<Vmap(<<Save("a", 1)>>, 2)>>, 2)>>, 2),
       Vmap(<<Vmap(<<Scan(<<Save("a", 1)>>, 2)>>, 2)>>, 2),
       Save2("p", 1, 7), Vmap(<<Save2("p", 1, 7)>>, 2), Scan(<<Save2("p", 1, 7)>>, 2),     \* two values, differently batched
       Vmap(<<Vmap(<<Save2("p", 1, 7)>>, 2)>>, 2), Ns("n", <<Vmap(<<Save2("p", 1, 7), Save("a", 2)>>, 2)>>)}
P2 == P1 \cup {<<s>> : s \in S2} \cup {<<s, Save("a", 4)>> : s \in S2}
      \cup {<<Ns("n", <<Save("b", 7)>>), Scan(<<Ns("n", <<Save("a", 1)>>)>>, 2)>>,    \* same namespace outside and inside a scan
            <<Ns("n", <<Save("a", 7)>>), Ns("n", <<Scan(<<Save("b", 1)>>, 2)>>)>>,
            <<Scan(<<Ns("n", <<Save("a", 1)>>)>>, 2), Ns("n", <<Save("b", 7)>>)>>}
Progs == IF Level = 1 THEN P1 ELSE P2

Pow10(j) == IF j = 1 THEN 10 ELSE IF j = 2 THEN 100 ELSE 1000
(* loops: enclosing scan / vmap constructs, outermost first, as [kind, n]; idx[j] = index in loop j *)
Val(c, idx) == c + FoldLeft(LAMBDA acc, j : acc + Pow10(j) * idx[j], 0, [j \in 1..Len(idx) |-> j])

(* Axis layout of a collected value. The property fixes: a scan stacks along a (leading) iteration axis, vmaps batch.
   Where both occur the order follows JAX's batching convention (informational): going from the innermost construct
   outwards, a scan prepends its axis, a vmap inserts its lane axis right after the leading scan axes.              *)
RECURSIVE AxisOrder(_, _)
AxisOrder(loops, j) ==        \* order (sequence of loop positions) contributed by loops j..Len(loops)
  IF j > Len(loops) THEN <<>>
  ELSE LET inner == AxisOrder(loops, j + 1)
           nscan == Cardinality({i \in DOMAIN inner : \A m \in 1..i : loops[inner[m]].kind = "scan"})
       IN IF loops[j].kind = "scan" THEN <<j>> \o inner
          ELSE SubSeq(inner, 1, nscan) \o <<j>> \o SubSeq(inner, nscan + 1, Len(inner))
RECURSIVE TensorBy(_, _, _, _)
TensorBy(order, loops, c, idx) ==      \* idx: partial function loop position -> index
  IF order = <<>> THEN Val(c, [j \in 1..Len(loops) |-> idx[j]])
  ELSE [i \in 1..loops[Head(order)].n |-> TensorBy(Tail(order), loops, c, [x \in DOMAIN idx \cup {Head(order)} |-> IF x = Head(order) THEN i ELSE idx[x]])]
Tensor(loops, c) == TensorBy(AxisOrder(loops, 1), loops, c, <<>>)

(* ------------- Contract: what was saved, where ------------- *)
(* every Save with its full name path, enclosing loops (outermost first) and constant, in program order *)
RECURSIVE Saves(_, _, _)
Saves(p, nsPath, loops) ==
  IF p = <<>> THEN <<>>
  ELSE LET s == Head(p)
           here == CASE s.k = "save" -> <<[path |-> Append(nsPath, s.name), loops |-> loops, c |-> s.c, d |-> s.d]>>
                     [] s.k = "ns"   -> Saves(s.body, Append(nsPath, s.ns), loops)
                     [] s.k \in {"scan", "vmap"} -> Saves(s.body, nsPath, Append(loops, [kind |-> s.k, n |-> s.n]))
                     [] s.k = "call" -> Saves(s.body, nsPath, loops)
       IN here \o Saves(Tail(p), nsPath, loops)
Collected(p) ==
  LET sv == Saves(p, <<>>, <<>>)
      paths == {sv[i].path : i \in DOMAIN sv}
      last(q) == CHOOSE i \in DOMAIN sv : sv[i].path = q /\ \A j \in DOMAIN sv : sv[j].path = q => j <= i
  IN [q \in paths |-> [loops |-> sv[last(q)].loops, c |-> sv[last(q)].c, d |-> sv[last(q)].d]]

(* ------------- Impl: the interpreter ------------- *)
(* collected_state as a map from name paths to [loops, c]; st = [coll, stack]; `loops` = the loops the value is inside *)
Put(coll, q, v) == [x \in DOMAIN coll \cup {q} |-> IF x = q THEN v ELSE coll[x]]
RECURSIVE Interp(_, _, _, _)
Interp(p, st, loops, fixed) ==
  IF p = <<>> THEN st
  ELSE LET s == Head(p)
           st2 == CASE s.k = "save" -> [st EXCEPT !.coll = Put(@, st.stack \o <<s.name>>, [loops |-> loops, c |-> s.c, d |-> s.d])]
                    [] s.k = "ns"   -> LET r == Interp(s.body, [st EXCEPT !.stack = Append(@, s.ns)], loops, fixed)
                                       IN [r EXCEPT !.stack = st.stack]
                    [] s.k = "call" -> Interp(s.body, st, loops, fixed)
                    [] s.k = "vmap" ->
                         (* batching happens while the Jaxpr is staged: the body's saves run in THIS interpreter, with batched values *)
                         Interp(s.body, st, Append(loops, [kind |-> "vmap", n |-> s.n]), fixed)
                    [] s.k = "scan" ->
                         (* the body is run by a FRESH interpreter (empty namespace stack, empty dictionary); its dictionary,
                            stacked over the iterations, is merged into collected_state                                      *)
                         LET body == Interp(s.body, [coll |-> <<>>, stack |-> <<>>], Append(loops, [kind |-> "scan", n |-> s.n]), fixed).coll
                             qs == DOMAIN body
                         IN IF fixed
                            THEN (* after the repair: merged at the current namespace path, path by path *)
                                 [st EXCEPT !.coll = [x \in DOMAIN st.coll \cup {st.stack \o q : q \in qs} |->
                                                       IF \E q \in qs : x = st.stack \o q
                                                       THEN body[CHOOSE q \in qs : x = st.stack \o q] ELSE st.coll[x]]]
                            ELSE (* before: at the root, whole same-named sub-dictionaries replaced *)
                                 LET tops == {q[1] : q \in qs}
                                     kept == {x \in DOMAIN st.coll : x[1] \notin tops}
                                 IN [st EXCEPT !.coll = [x \in kept \cup qs |-> IF x \in qs THEN body[x] ELSE st.coll[x]]]
       IN Interp(Tail(p), st2, loops, fixed)
Run(p, fixed) == Interp(p, [coll |-> <<>>, stack |-> <<>>], <<>>, fixed)

VARIABLE prog
Init == prog \in Progs
Next == UNCHANGED prog
Spec == Init /\ [][Next]_prog
CollectOK == Run(prog, TRUE).coll = Collected(prog) /\ Run(prog, TRUE).stack = <<>>
CollectOldOK == Run(prog, FALSE).coll = Collected(prog)            \* expected to FAIL (pre-repair merge)
Export == TLCGet("level") >= 0 /\ JsonSerialize(IOEnv.GX_OUT \o "/state_progs.json",
            SetToSeq({[prog |-> p, expect |-> LET C == Collected(p) IN SetToSeq({[path |-> q, val |-> Tensor(C[q].loops, C[q].c), kinds |-> [j \in DOMAIN C[q].loops |-> C[q].loops[j].kind], second |-> C[q].d] : q \in DOMAIN C})] : p \in Progs}))
=============================================================================
