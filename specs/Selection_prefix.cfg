SPECIFICATION Spec
CONSTANTS Depth = 1
          AtomKind = "small"
INVARIANT FilterAgreeOld
