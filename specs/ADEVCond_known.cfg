SPECIFICATION Spec
CONSTANTS
  SiteKinds = {"enum"}
  Threaded = FALSE
  MaxT = 1
  MaxF = 0
  Shapes = {"C"}
INVARIANT Unbiased
