SPECIFICATION Spec
INVARIANT Linear
INVARIANT ScalarOut
INVARIANT PrintCase
POSTCONDITION ExportCorpus
