SPECIFICATION Spec
INVARIANT Done
