SPECIFICATION Spec
CONSTANTS
  SiteKinds = {"enum", "pcat"}
  Threaded = TRUE
  MaxT = 1
  MaxF = 1
  Shapes = {"C", "SC", "CS"}
INVARIANT Unbiased
INVARIANT EnumExact
