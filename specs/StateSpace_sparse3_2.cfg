SPECIFICATION Spec
CONSTANTS ModelName = "sparse3"
 T = 2
INVARIANT FilterOK
INVARIANT KalmanOK
INVARIANT PrintHMM
INVARIANT PrintKalman
