------------------------------- MODULE ADEVVec -------------------------------
(* C11, batched sites: flip_enum / flip_mvd over a VECTOR or MATRIX of probabilities (the lane-wise Rao-Blackwellised
   estimator _flip_lane_rb_estimate of adev/__init__.py).

   Site: b ~ prod_i Bernoulli(P_i), P_i = theta * a_i (i over the M lanes in row-major order);
   objective R(b, theta) = theta * sum_i w_i b_i + c * b_1 * b_M.
   Impl    : draw b; (primal, tangent0) = dual continuation at b; for every lane i: other_i = primal with lane i flipped,
             est += sign_i * (other_i - primal) * dP_i  (sign_i = -1 if b_i else +1); tangent = tangent0 + est.
   Contract: sum over all b of Prob(b) * tangent(b) = d/dtheta E[R], computed by differentiating the enumeration.       *)
EXTENDS Rational, Sequences, SequencesExt, FiniteSets, FiniteSetsExt, TLC, TLCExt

CONSTANTS M            \* number of lanes: 2 (vector) or 4 (2x2 matrix)

Thetas == {Q(1, 4), Q(1, 2), Q(3, 4)}
Acoef == <<R(1), Q(1, 2), Q(1, 4), Q(3, 4)>>
Wcoef == <<R(1), R(2), R(3), R(4)>>
Cc == R(5)
Lanes == 1..M
Bs == [Lanes -> BOOLEAN]
B01(x) == IF x THEN R(1) ELSE R(0)
SumR(S, f(_)) == FoldSet(LAMBDA x, acc : RAdd(acc, f(x)), R(0), S)
ProdR(S, f(_)) == FoldSet(LAMBDA x, acc : RMul(acc, f(x)), R(1), S)
P(th, i) == RMul(th, Acoef[i])
Lin(b) == SumR(Lanes, LAMBDA i : RMul(Wcoef[i], B01(b[i])))
F(b, th) == RAdd(RMul(th, Lin(b)), RMul(Cc, RMul(B01(b[1]), B01(b[M]))))
Prob(b, th) == ProdR(Lanes, LAMBDA i : IF b[i] THEN P(th, i) ELSE RSub(R(1), P(th, i)))
Flip(b, i) == [b EXCEPT ![i] = ~b[i]]
(* Impl: the lane-wise estimator for the draw b *)
Est(b, th) == SumR(Lanes, LAMBDA i : RMul(RMul(IF b[i] THEN R(0 - 1) ELSE R(1), RSub(F(Flip(b, i), th), F(b, th))), Acoef[i]))
Tangent(b, th) == RAdd(Lin(b), Est(b, th))
(* Contract: derivative of the exact expectation *)
DProb(b, th) == RMul(Prob(b, th), SumR(Lanes, LAMBDA i : IF b[i] THEN RDiv(Acoef[i], P(th, i)) ELSE RNeg(RDiv(Acoef[i], RSub(R(1), P(th, i))))))
ExactGrad(th) == SumR(Bs, LAMBDA b : RAdd(RMul(DProb(b, th), F(b, th)), RMul(Prob(b, th), Lin(b))))
ExactVal(th) == SumR(Bs, LAMBDA b : RMul(Prob(b, th), F(b, th)))

VARIABLE th
Init == th \in Thetas
Next == UNCHANGED th
Spec == Init /\ [][Next]_th
Unbiased == /\ SumR(Bs, LAMBDA b : Prob(b, th)) = R(1)
            /\ SumR(Bs, LAMBDA b : RMul(Prob(b, th), Tangent(b, th))) = ExactGrad(th)
            /\ SumR(Bs, LAMBDA b : RMul(Prob(b, th), F(b, th))) = ExactVal(th)
PrintCase == PrintT(<<"VCASE", M, th, SetToSeq({<<[i \in Lanes |-> b[i]], Prob(b, th), F(b, th), Tangent(b, th)>> : b \in Bs}), ExactGrad(th)>>)
=============================================================================
