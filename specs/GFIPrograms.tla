---------------------------- MODULE GFIPrograms ----------------------------
(* The corpus of generative functions used by GFI.tla, as data (exported to the harness, which
   builds the real @gen functions / Vmap / Scan / Cond combinators from the same records).

   kinds:  dist  [off, soff]           tri-distribution over 0..2: P(v | par) = 1/2 if v = (par+off)%3 else 1/4
                                       (soff: the harness draws (script + soff) % 3 - lets the two branches
                                        of a Cond see different values from one shared script)
           fn    [sites, ret]          @gen function; a site is [addr, callee, arg (expression), kw]
           vmap  [callee, n, bcast]    callee.vmap(in_axes=0) over n lanes (bcast: repeat / in_axes=None)
           scan  [callee, n]           Scan(callee, length=n); arg = <<init carry, xs>>, callee arg = <<carry, x>>,
                                       callee returns <<carry', out>>
           cond  [t, f]                Cond(t, f); arg = <<check, branch arg>>, check in {0,1}
   expressions: <<"arg">> <<"val", addr>> <<"const", c>> <<"add", e, e>> <<"eq", e, e>> <<"pair", e, e>>
                <<"seq", e, e>> <<"fst", e>> <<"snd", e>> <<"sum", e>>                                     *)
EXTENDS Naturals, Sequences

Site(a, c, e) == [addr |-> a, callee |-> c, arg |-> e, kw |-> FALSE]
SiteKw(a, c, e) == [addr |-> a, callee |-> c, arg |-> e, kw |-> TRUE]
Arg == <<"arg">>
Val(a) == <<"val", a>>
Cn(c) == <<"const", c>>
Add(x, y) == <<"add", x, y>>

GF == [
  d0  |-> [kind |-> "dist", off |-> 0, soff |-> 0],
  d1  |-> [kind |-> "dist", off |-> 1, soff |-> 1],
  d2  |-> [kind |-> "dist", off |-> 2, soff |-> 2],
  \* flat two-site function
  f2  |-> [kind |-> "fn", sites |-> << Site("a", "d0", Arg), Site("b", "d1", Val("a")) >>,
           ret |-> Add(Val("a"), Val("b"))],
  \* nested call, keyword argument at the inner call
  fn3 |-> [kind |-> "fn", sites |-> << Site("a", "d0", Arg), SiteKw("s", "f2", Val("a")), Site("c", "d1", Add(Val("s"), Val("a"))) >>,
           ret |-> Add(Val("a"), Val("s"))],
  \* vectorised distribution and vectorised function
  vd  |-> [kind |-> "vmap", callee |-> "d0", n |-> 2, bcast |-> FALSE],
  fv  |-> [kind |-> "fn", sites |-> << Site("a", "d1", Arg), Site("v", "vd", <<"seq", Val("a"), Add(Val("a"), Cn(1))>>),
                                        Site("z", "d0", <<"sum", Val("v")>>) >>,
           ret |-> Add(Val("z"), <<"sum", Val("v")>>)],
  vf  |-> [kind |-> "vmap", callee |-> "f2", n |-> 2, bcast |-> FALSE],
  fvf |-> [kind |-> "fn", sites |-> << Site("v", "vf", <<"seq", Arg, Add(Arg, Cn(2))>>), Site("z", "d1", <<"sum", Val("v")>>) >>,
           ret |-> Val("z")],
  \* an array-valued (batch-shaped) address: ONE site whose value is a vector, log density = sum over coordinates.
  \* Semantically the product of independent coordinates (so the spec treats it as a 2-lane map); the harness builds it as a
  \* single distribution call with vector parameters (as_site).
  bd  |-> [kind |-> "vmap", callee |-> "d0", n |-> 2, bcast |-> FALSE, as_site |-> TRUE],
  fb  |-> [kind |-> "fn", sites |-> << Site("a", "d1", Arg), Site("v", "bd", <<"seq", Val("a"), Add(Val("a"), Cn(1))>>),
                                        Site("z", "d0", <<"sum", Val("v")>>) >>,
           ret |-> Add(Val("z"), <<"sum", Val("v")>>)],
  \* an EVENT-shaped address: one site whose value is a vector and whose log density is ONE number (the event axis is reduced inside
  \* the distribution). Semantically again the product of its coordinates; built as a single distribution call (as_site, as_event).
  ed  |-> [kind |-> "vmap", callee |-> "d0", n |-> 2, bcast |-> FALSE, as_site |-> TRUE, as_event |-> TRUE],
  fe  |-> [kind |-> "fn", sites |-> << Site("a", "d1", Arg), Site("v", "ed", <<"seq", Val("a"), Add(Val("a"), Cn(1))>>),
                                        Site("z", "d0", <<"sum", Val("v")>>) >>,
           ret |-> Add(Val("z"), <<"sum", Val("v")>>)],
  \* ... and a Vmap over a function with an event-shaped address (batch axis in front of the event axis)
  ge  |-> [kind |-> "fn", sites |-> << Site("v", "ed", <<"seq", Arg, Add(Arg, Cn(1))>>) >>, ret |-> <<"sum", Val("v")>>],
  vge |-> [kind |-> "vmap", callee |-> "ge", n |-> 2, bcast |-> FALSE],
  fve |-> [kind |-> "fn", sites |-> << Site("w", "vge", <<"seq", Arg, Add(Arg, Cn(2))>>), Site("z", "d1", <<"sum", Val("w")>>) >>,
           ret |-> Val("z")],
  \* repeat (in_axes=None)
  rd  |-> [kind |-> "vmap", callee |-> "d1", n |-> 2, bcast |-> TRUE],
  fr  |-> [kind |-> "fn", sites |-> << Site("r", "rd", Arg), Site("y", "d0", <<"sum", Val("r")>>) >>,
           ret |-> <<"sum", Val("r")>>],
  \* a Vmap called with a KEYWORD argument (shared by all lanes, as Scan shares keyword arguments between iterations)
  rk  |-> [kind |-> "vmap", callee |-> "bF", n |-> 2, bcast |-> TRUE, kwarg |-> TRUE],
  frk |-> [kind |-> "fn", sites |-> << Site("a", "d1", Arg), SiteKw("r", "rk", Val("a")), Site("y", "d0", <<"sum", Val("r")>>) >>,
           ret |-> <<"sum", Val("r")>>],
  \* a Vmap built with the default in_axes (a bare int 0: every argument mapped)
  vi  |-> [kind |-> "vmap", callee |-> "d0", n |-> 2, bcast |-> FALSE, intaxes |-> TRUE],
  fvi |-> [kind |-> "fn", sites |-> << Site("a", "d1", Arg), Site("v", "vi", <<"seq", Val("a"), Add(Val("a"), Cn(2))>>) >>,
           ret |-> <<"sum", Val("v")>>],
  \* a Cond whose branches are Vmaps (scalar condition shared by the lanes)
  rd0 |-> [kind |-> "vmap", callee |-> "d0", n |-> 2, bcast |-> TRUE],
  cvr |-> [kind |-> "cond", t |-> "rd", f |-> "rd0"],
  fcv |-> [kind |-> "fn", sites |-> << Site("c", "cvr", <<"pair", <<"eq", Arg, Cn(1)>>, Arg>>), Site("y", "d0", <<"sum", Val("c")>>) >>,
           ret |-> <<"sum", Val("c")>>],
  \* scan: step(carry, x) = z ~ d0(carry + x); returns (z, z + 1)
  st  |-> [kind |-> "fn", sites |-> << Site("z", "d0", Add(<<"fst", Arg>>, <<"snd", Arg>>)) >>,
           ret |-> <<"pair", Val("z"), Add(Val("z"), Cn(1))>>],
  sc  |-> [kind |-> "scan", callee |-> "st", n |-> 2],
  fs  |-> [kind |-> "fn", sites |-> << Site("s", "sc", <<"pair", Arg, <<"seq", Cn(0), Cn(1)>>>>),
                                        Site("y", "d1", <<"fst", Val("s")>>) >>,
           ret |-> Add(Val("y"), <<"sum", <<"snd", Val("s")>>>>)],
  \* a scan whose carry and outputs depend on its ARGUMENTS as well (not only on its own choices), fed by an earlier choice
  st2 |-> [kind |-> "fn", sites |-> << Site("z", "d0", Add(<<"fst", Arg>>, <<"snd", Arg>>)) >>,
           ret |-> <<"pair", Add(Val("z"), <<"fst", Arg>>), Add(Val("z"), <<"snd", Arg>>)>>],
  sc2 |-> [kind |-> "scan", callee |-> "st2", n |-> 2],
  fs2 |-> [kind |-> "fn", sites |-> << Site("a", "d1", Arg), Site("s", "sc2", <<"pair", Val("a"), <<"seq", Cn(0), Cn(1)>>>>),
                                        Site("y", "d1", <<"fst", Val("s")>>) >>,
           ret |-> Add(Val("y"), <<"sum", <<"snd", Val("s")>>>>)],
  \* a Scan whose step takes a KEYWORD argument (shared by all iterations), passed by the parent
  sck |-> [kind |-> "scan", callee |-> "st2", n |-> 2, kwstep |-> TRUE],
  fsk |-> [kind |-> "fn", sites |-> << Site("a", "d1", Arg), SiteKw("s", "sck", <<"pair", Val("a"), <<"seq", Cn(0), Cn(1)>>>>),
                                        Site("y", "d1", <<"fst", Val("s")>>) >>,
           ret |-> Add(Val("y"), <<"sum", <<"snd", Val("s")>>>>)],
  \* cond with shared addresses in the branches; the condition depends on an earlier choice
  bT  |-> [kind |-> "fn", sites |-> << Site("x", "d0", Arg) >>, ret |-> Val("x")],
  bF  |-> [kind |-> "fn", sites |-> << Site("x", "d1", Add(Arg, Cn(1))) >>, ret |-> Add(Val("x"), Cn(1))],
  cTF |-> [kind |-> "cond", t |-> "bT", f |-> "bF"],
  fc  |-> [kind |-> "fn", sites |-> << Site("z", "d0", Arg), Site("c", "cTF", <<"pair", <<"eq", Val("z"), Cn(0)>>, Val("z")>>),
                                        Site("y", "d2", Val("c")) >>,
           ret |-> Add(Val("c"), Val("y"))],
  \* cond whose condition is an argument (can be flipped by an argument change), two sites per branch
  b2T |-> [kind |-> "fn", sites |-> << Site("x", "d0", Arg), Site("w", "d1", Val("x")) >>, ret |-> Val("w")],
  b2F |-> [kind |-> "fn", sites |-> << Site("x", "d2", Arg), Site("w", "d0", Add(Val("x"), Cn(1))) >>, ret |-> Add(Val("w"), Val("x"))],
  c2  |-> [kind |-> "cond", t |-> "b2T", f |-> "b2F"],
  fa  |-> [kind |-> "fn", sites |-> << SiteKw("c", "c2", <<"pair", <<"eq", Arg, Cn(0)>>, Arg>>), Site("y", "d1", Val("c")) >>,
           ret |-> Val("y")],
  \* a Cond vectorised directly (per-lane conditions)
  vc  |-> [kind |-> "vmap", callee |-> "cTF", n |-> 2, bcast |-> FALSE],
  fvc |-> [kind |-> "fn", sites |-> << Site("z", "d0", Arg),
                                        Site("v", "vc", <<"seq", <<"pair", <<"eq", Val("z"), Cn(0)>>, Val("z")>>, <<"pair", <<"eq", Val("z"), Cn(1)>>, Add(Val("z"), Cn(1))>>>>) >>,
           ret |-> <<"sum", Val("v")>>],
  \* a Cond whose branches call another function at the SAME nested address (shared address below the top level)
  gT  |-> [kind |-> "fn", sites |-> << Site("s", "bT", Arg) >>, ret |-> Val("s")],
  gF  |-> [kind |-> "fn", sites |-> << Site("s", "bF", Arg) >>, ret |-> Val("s")],
  cg  |-> [kind |-> "cond", t |-> "gT", f |-> "gF"],
  fcg |-> [kind |-> "fn", sites |-> << Site("c", "cg", <<"pair", <<"eq", Arg, Cn(0)>>, Arg>>), Site("y", "d1", Val("c")) >>,
           ret |-> Val("y")],
  \* ... and with TWO addresses below the shared nested address (a constraint can be partial inside the nested sub-map)
  f2b |-> [kind |-> "fn", sites |-> << Site("a", "d1", Arg), Site("b", "d2", Val("a")) >>, ret |-> Add(Val("a"), Val("b"))],
  hT  |-> [kind |-> "fn", sites |-> << Site("s", "f2", Arg) >>, ret |-> Val("s")],
  hF  |-> [kind |-> "fn", sites |-> << Site("s", "f2b", Add(Arg, Cn(1))) >>, ret |-> Val("s")],
  ch  |-> [kind |-> "cond", t |-> "hT", f |-> "hF"],
  fch |-> [kind |-> "fn", sites |-> << Site("c", "ch", <<"pair", <<"eq", Arg, Cn(0)>>, Arg>>), Site("y", "d1", Val("c")) >>,
           ret |-> Val("y")],
  \* a directly vectorised Cond whose branches hold an ARRAY-valued address: condition of shape (lanes,), values of shape (lanes, 2)
  bd1 |-> [kind |-> "vmap", callee |-> "d1", n |-> 2, bcast |-> FALSE, as_site |-> TRUE],
  gbT |-> [kind |-> "fn", sites |-> << Site("v", "bd", <<"seq", Arg, Add(Arg, Cn(1))>>) >>, ret |-> <<"sum", Val("v")>>],
  gbF |-> [kind |-> "fn", sites |-> << Site("v", "bd1", <<"seq", Add(Arg, Cn(1)), Arg>>) >>, ret |-> <<"sum", Val("v")>>],
  cb  |-> [kind |-> "cond", t |-> "gbT", f |-> "gbF"],
  vcb |-> [kind |-> "vmap", callee |-> "cb", n |-> 2, bcast |-> FALSE],
  fvcb |-> [kind |-> "fn", sites |-> << Site("z", "d0", Arg),
                                        Site("w", "vcb", <<"seq", <<"pair", <<"eq", Val("z"), Cn(0)>>, Val("z")>>, <<"pair", <<"eq", Val("z"), Cn(1)>>, Add(Val("z"), Cn(1))>>>>) >>,
           ret |-> <<"sum", Val("w")>>],
  \* cond directly over two distributions
  cdd |-> [kind |-> "cond", t |-> "d0", f |-> "d1"],
  fd  |-> [kind |-> "fn", sites |-> << Site("c", "cdd", <<"pair", <<"eq", Arg, Cn(1)>>, Arg>>), Site("y", "d0", Val("c")) >>,
           ret |-> Add(Val("c"), Val("y"))],
  \* deeper nestings (thorough): vmap of scan, scan with a cond inside, depth 3
  vfs |-> [kind |-> "vmap", callee |-> "fs", n |-> 2, bcast |-> FALSE],
  fvs |-> [kind |-> "fn", sites |-> << Site("q", "vfs", <<"seq", Arg, Add(Arg, Cn(1))>>) >>,
           ret |-> <<"sum", Val("q")>>],
  stc |-> [kind |-> "fn", sites |-> << Site("c", "cTF", <<"pair", <<"eq", <<"fst", Arg>>, <<"snd", Arg>>>>, <<"fst", Arg>>>>) >>,
           ret |-> <<"pair", Val("c"), Val("c")>>],
  scc |-> [kind |-> "scan", callee |-> "stc", n |-> 2],
  fsc |-> [kind |-> "fn", sites |-> << Site("s", "scc", <<"pair", Arg, <<"seq", Cn(0), Cn(2)>>>>) >>,
           ret |-> <<"fst", Val("s")>>],
  f3d |-> [kind |-> "fn", sites |-> << Site("o", "fn3", Arg), Site("t", "d2", Val("o")) >>, ret |-> Val("t")],
  \* address collision: the same address used twice (every GFI method must raise)
  fcol |-> [kind |-> "fn", sites |-> << Site("a", "d0", Arg), Site("a", "d1", Arg) >>, ret |-> Val("a")]
]
=============================================================================
