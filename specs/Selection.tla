---------------------------- MODULE Selection ----------------------------
(* C16 - selections are a Boolean algebra on address paths; filter / merge partition choice maps.

   Contract : Den(s, p)            - the Boolean algebra on address paths the property states.
   Impl     : Match / LeafHit      - genjax.core.*Sel.match returning (hit, remainder) and the
                                     leaf test `() in s` used by Distribution.regenerate / filter;
              SelectedOp           - the remainder chain that Fn's Regenerate handler threads down;
              FilterSel            - Fn.filter / Distribution.filter as written in core.py;
              Merge                - Fn.merge on leaf-path maps.
   TLC checks Impl |= Contract for every expression of the bounded space, every path up to
   depth 3 and every choice-map shape, and exports the Den table that the harness compares the
   real objects against.                                                                         *)
EXTENDS SelOps, FiniteSets, TLC, TLCExt, Json, IOUtils

CONSTANTS Depth,        \* nesting depth of not/or/and above the atoms
          AtomKind      \* "small" | "full" : which atom set is used

Addrs == {"a", "b"}
PathsUpTo(n) == UNION {[1..k -> Addrs] : k \in 0..n}
Paths == PathsUpTo(3) \ {<<>>}

SmallAtoms == {A("all"), A("none"), StrS("a"), StrS("b"), TupS(<<"a">>), TupS(<<"a", "b">>),
               TupS(<<"b", "a">>), TupS(<<"a", "a", "b">>),
               DictS([x \in {"a"} |-> StrS("b")]), DictS([x \in {"a", "b"} |-> IF x = "a" THEN TupS(<<"a", "b">>) ELSE A("all")]),
               (* complements of hierarchical selections as operands of the depth-1 unions / intersections *)
               NotS(TupS(<<"a", "b">>)), NotS(DictS([x \in {"a"} |-> StrS("b")]))}
DictVals == {A("all"), A("none"), StrS("a"), StrS("b"), TupS(<<"b">>), TupS(<<"a", "b">>)}
FullAtoms == {A("all"), A("none")} \cup {StrS(x) : x \in Addrs}
             \cup {TupS(p) : p \in (PathsUpTo(2) \ {<<>>})} \cup {TupS(<<"a", "a", "b">>), TupS(<<"a", "b", "a">>)}
             \cup {DictS(d) : d \in UNION {[D -> DictVals] : D \in (SUBSET Addrs \ {{}})}}
(* four positive atoms: used by the depth-2 exhaustive run (3 280 expressions), where complements arise by nesting anyway *)
PosSmallAtoms == {A("all"), StrS("a"), TupS(<<"a", "b">>), DictS([x \in {"a"} |-> StrS("b")])}
Atoms == IF AtomKind = "small" THEN SmallAtoms ELSE IF AtomKind = "possmall" THEN PosSmallAtoms ELSE FullAtoms

RECURSIVE SelsOfDepth(_)
SelsOfDepth(d) == IF d = 0 THEN Atoms
                  ELSE LET S == SelsOfDepth(d - 1) IN
                       S \cup {NotS(s) : s \in S}
                         \cup {OrS(s, t) : s \in S, t \in S}
                         \cup {AndS(s, t) : s \in S, t \in S}
Sels == SelsOfDepth(Depth)

-----------------------------------------------------------------------------
(* choice-map shapes: prefix-free sets of leaf paths *)
Shapes == { {<<"a">>, <<"b">>},
            {<<"a", "a">>, <<"a", "b">>, <<"b">>},
            {<<"a", "a">>, <<"a", "b">>, <<"b", "a">>, <<"b", "b">>},
            {<<"a", "a", "a">>, <<"a", "a", "b">>, <<"a", "b">>, <<"b">>},
            {<<"a">>} }
KeysAt(sh, pre) == {q[Len(pre) + 1] : q \in {r \in sh : IsPrefix(pre, r) /\ Len(r) > Len(pre)}}

(* Fn.filter after the repair (fix: commit in /repo): always descend with the remainder, a leaf is
   selected iff `() in remainder` - the same decision Distribution.regenerate takes.            *)
RECURSIVE FilterSel(_, _, _)
FilterSel(sh, sl, pre) ==
  UNION { LET m == Match(sl, k) q == Append(pre, k) IN
          IF q \in sh THEN (IF LeafHit(m[2]) THEN {q} ELSE {})
          ELSE FilterSel(sh, m[2], q) : k \in KeysAt(sh, pre) }

(* Fn.filter as it was before the repair: the hit flag decides whether to descend at all.
   Kept so that TLC documents the defect (cfg Selection_prefix.cfg expects a violation).       *)
RECURSIVE FilterSelOld(_, _, _)
FilterSelOld(sh, sl, pre) ==
  UNION { LET m == Match(sl, k) q == Append(pre, k) IN
          IF m[1] THEN (IF q \in sh THEN {q} ELSE FilterSelOld(sh, m[2], q))
          ELSE {} : k \in KeysAt(sh, pre) }

(* The expression space is generated level by level so that TLC's workers share the work:
   at level k the reachable expressions are exactly SelsOfDepth(k).                            *)
VARIABLES s, p, lvl
vars == <<s, p, lvl>>
Init == s \in Atoms /\ p \in Paths /\ lvl = 0
Grow == /\ lvl < Depth /\ lvl' = lvl + 1 /\ p' = p
        /\ \/ s' = s
           \/ s' = NotS(s)
           \/ \E t \in SelsOfDepth(lvl) : s' \in {OrS(s, t), AndS(s, t)}
Next == Grow
Spec == Init /\ [][Next]_vars

(* --- invariants (Impl |= Contract) --- *)
Agree == SelectedOp(s, p) = Den(s, p)
AlgebraOr  == \A t \in SmallAtoms : SelectedOp(OrS(s, t), p) = (SelectedOp(s, p) \/ SelectedOp(t, p))
AlgebraAnd == \A t \in SmallAtoms : SelectedOp(AndS(s, t), p) = (SelectedOp(s, p) /\ SelectedOp(t, p))
AlgebraNot == SelectedOp(NotS(s), p) = ~SelectedOp(s, p) /\ SelectedOp(NotS(NotS(s)), p) = SelectedOp(s, p)
DeMorgan   == \A t \in SmallAtoms : SelectedOp(NotS(OrS(s, t)), p) = SelectedOp(AndS(NotS(s), NotS(t)), p)
Extremes   == SelectedOp(A("none"), p) = FALSE /\ SelectedOp(A("all"), p) = TRUE
StrTup     == /\ \A x \in Addrs : SelectedOp(StrS(x), p) = (p[1] = x)
              /\ \A t \in (PathsUpTo(2) \ {<<>>}) : SelectedOp(TupS(t), p) = IsPrefix(t, p)
FilterAgree    == \A sh \in Shapes : FilterSel(sh, s, <<>>) = {q \in sh : Den(s, q)}
FilterAgreeOld == \A sh \in Shapes : FilterSelOld(sh, s, <<>>) = {q \in sh : Den(s, q)}
FilterPartition == \A sh \in Shapes :
     LET sel == FilterSel(sh, s, <<>>) uns == sh \ sel IN sel \cap uns = {} /\ sel \cup uns = sh

(* --- export: for every expression, the set of selected paths (the Den table) --- *)
SelTable == [e \in Sels |-> {q \in Paths : Den(e, q)}]
Export == JsonSerialize(IOEnv.GX_OUT \o "/sel_table.json",
                        SetToSeq({[e |-> e, sel |-> SetToSeq(SelTable[e])] : e \in Sels}))
=============================================================================
