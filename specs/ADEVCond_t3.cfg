SPECIFICATION Spec
CONSTANTS
  SiteKinds = {"enum", "penum", "pcat"}
  Threaded = TRUE
  MaxT = 2
  MaxF = 1
  Shapes = {"C", "SC", "CS", "CC"}
INVARIANT Unbiased
INVARIANT EnumExact
