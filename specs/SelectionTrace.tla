-------------------------- MODULE SelectionTrace --------------------------
(* Code -> spec direction for C16: (expression, path, verdict) records taken from the real genjax
   selection objects (remainder chain + `() in s`) are checked against the Contract Den of
   Selection.tla. One state per record; a rejected record is printed and the run continues, so
   that every record is examined.                                                               *)
EXTENDS Naturals, Sequences, TLC, TLCExt, Json, IOUtils

Events == JsonDeserialize(IOEnv.TRACE_FILE)

RECURSIVE DenJ(_, _)
IsPre(q, p) == Len(q) <= Len(p) /\ \A i \in 1..Len(q) : q[i] = p[i]
DenJ(s, p) ==
  CASE s.k = "all"  -> TRUE
    [] s.k = "none" -> FALSE
    [] s.k = "str"  -> Len(p) >= 1 /\ p[1] = s.s
    [] s.k = "tup"  -> IsPre(s.t, p)
    [] s.k = "dict" -> Len(p) >= 1 /\ p[1] \in DOMAIN s.d /\ DenJ(s.d[p[1]], Tail(p))
    [] s.k = "not"  -> ~DenJ(s.x, p)
    [] s.k = "or"   -> DenJ(s.x, p) \/ DenJ(s.y, p)
    [] s.k = "and"  -> DenJ(s.x, p) /\ DenJ(s.y, p)

VARIABLE l
Init == l = 1
Accept(ev) == ev.selected = DenJ(ev.e, ev.p)
Step == /\ l <= Len(Events)
        /\ IF Accept(Events[l]) THEN TRUE ELSE PrintT(<<"REJECT", l>>)
        /\ l' = l + 1
Spec == Init /\ [][Step]_l
Done == (l = Len(Events) + 1) => PrintT("ALLCHECKED")
=============================================================================
