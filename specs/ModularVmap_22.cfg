SPECIFICATION Spec
CONSTANTS L = 2
 M = 2
INVARIANT RuleOK
POSTCONDITION Export
