SPECIFICATION Spec
CONSTANTS Target = "xy"
 Steps = 2
INVARIANT MalaOK
INVARIANT HmcOK
INVARIANT PrintCase
