SPECIFICATION Spec
CONSTANTS MaxN = 9
 MaxThin = 4
 MaxChains = 3
INVARIANT ChainOK
INVARIANT PrintDone
