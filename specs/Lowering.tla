------------------------------ MODULE Lowering ------------------------------
(* C14: an unseeded sampling site can never be compiled into a fixed-randomness program.

   A placement is a stack of contexts (outermost first) around one sampling site:
       jit scan while fori_static fori_dynamic cond switch grad vmap modular_vmap remat custom_jvp seed
   plus whether the site's parameters depend on the mapped / traced input ("batched").

   Contract : Outcome(stack, batched) - what the property demands.
   Impl     : Exec(stack, mode, batched) - what sample_p's rules and the Seed interpreter do:
                 the lowering rule raises; Seed rewrites sites at the top level of a Jaxpr and inside cond_p / scan_p,
                 refuses (after the repair) other equations that still contain a site; the batching rule only supports
                 modular_vmap; jax.vmap never calls a batching rule for a site whose inputs are unbatched.
   TLC checks Impl |= Contract for every placement up to the depth bound and exports the table that the harness
   executes as real JAX code.                                                                                    *)
EXTENDS Naturals, Sequences, SequencesExt, FiniteSets, TLC, TLCExt, Json, IOUtils

CONSTANTS Depth

Ctx == {"jit", "scan", "while", "fori_static", "fori_dynamic", "cond", "switch", "grad", "vmap", "modular_vmap",
        "remat", "custom_jvp", "seed"}
Compiling == {"jit", "scan", "while", "fori_static", "fori_dynamic", "cond", "switch"}
(* equations the Seed interpreter rewrites (or that leave no equation of their own in the staged Jaxpr) *)
SeedInterprets == {"scan", "fori_static", "cond", "switch", "grad", "modular_vmap", "seed"}
Uninterp == {"remat", "custom_jvp"}
Stacks == UNION {[1..d -> Ctx] : d \in 0..Depth}
          \cup {<<"seed", x, y>> : x \in Uninterp, y \in Uninterp}          \* nested uninterpreted equations under seed (always included)
          \cup {<<"seed", x, y, z>> : x \in Uninterp, y \in {"grad", "modular_vmap"}, z \in Uninterp}

(* ---------------- Contract ---------------- *)
(* index of the innermost seed, 0 if none *)
InnerSeed(st) == LET S == {i \in DOMAIN st : st[i] = "seed"} IN IF S = {} THEN 0 ELSE CHOOSE i \in S : \A j \in S : j <= i
Below(st, i) == SubSeq(st, i + 1, Len(st))
Rng(s) == {s[i] : i \in DOMAIN s}
Outcome(st, batched) ==
  LET k == InnerSeed(st)
      inner == Below(st, k)                 \* the contexts between the innermost seed (or the top) and the site
  IN IF "vmap" \in Rng(inner) THEN "error"                      \* plain jax.vmap over a site: must raise, never replicate
     ELSE IF k > 0 THEN (IF Rng(inner) \subseteq SeedInterprets THEN "keyed" ELSE "lowering")
     ELSE IF Rng(st) \cap Compiling # {} THEN "lowering"
     ELSE "eager"                                              \* nothing compiles: ordinary unseeded eager sampling

(* ---------------- Impl ---------------- *)
(* mode: "eager" | "compiling" | "seed" (the site is inside a Jaxpr that a Seed interpreter is walking) *)
RECURSIVE Exec(_, _, _)
Exec(st, mode, batched) ==
  IF st = <<>> THEN (CASE mode = "eager" -> "eager" [] mode = "compiling" -> "lowering" [] mode = "seed" -> "keyed")
  ELSE LET c == Head(st) rest == Tail(st) IN
       IF c = "seed" THEN Exec(rest, "seed", batched)
       ELSE IF c = "vmap" THEN
              (* a vmap above a seed maps keys: harmless. Otherwise the batching rule refuses non-modular vmaps - but it is
                 only consulted when an input of the site is batched *)
              IF "seed" \in Rng(rest) THEN Exec(rest, mode, batched)
              ELSE IF batched THEN "error" ELSE
              (LET inner == Exec(rest, mode, batched) IN IF inner \in {"eager", "keyed"} THEN "replicated" ELSE inner)
       ELSE IF mode = "seed" THEN
              (IF c \in SeedInterprets THEN Exec(rest, "seed", batched)
               ELSE IF "seed" \in Rng(rest) THEN Exec(rest, IF c \in Compiling THEN "compiling" ELSE "eager", batched)
               ELSE "lowering")      \* after the repair: an uninterpreted equation that still contains a site raises
       ELSE IF c \in Compiling THEN Exec(rest, "compiling", batched)
       ELSE Exec(rest, mode, batched)

(* the fall-through of the code before the repair (documented by Lowering_prefix.cfg) *)
RECURSIVE ExecOld(_, _, _)
ExecOld(st, mode, batched) ==
  IF st = <<>> THEN (CASE mode = "eager" -> "eager" [] mode = "compiling" -> "lowering" [] mode = "seed" -> "keyed")
  ELSE LET c == Head(st) rest == Tail(st) IN
       IF c = "seed" THEN ExecOld(rest, "seed", batched)
       ELSE IF c = "vmap" THEN (IF "seed" \in Rng(rest) THEN ExecOld(rest, mode, batched) ELSE IF batched THEN "error" ELSE "replicated")
       ELSE IF mode = "seed" THEN
              (IF c \in SeedInterprets THEN ExecOld(rest, "seed", batched)
               ELSE IF c \in {"remat", "custom_jvp"} THEN "hidden"
               ELSE "lowering")
       ELSE IF c \in Compiling THEN ExecOld(rest, "compiling", batched)
       ELSE ExecOld(rest, mode, batched)

VARIABLES st, batched
vars == <<st, batched>>
Init == st \in Stacks /\ batched \in BOOLEAN
Next == UNCHANGED vars
Spec == Init /\ [][Next]_vars

(* Two deviations are recorded as known findings, identified by the rule of pjax.py through which they happen:
   "vmap-unbatched-site": jax.vmap never consults the batching rule of a site whose inputs are unbatched
                          (VmapBatchHandler.create_batch_rule is not reached) - one draw is replicated;
   "ad-through-site"    : the default jvp rule (initial_style_bind.jvp) differentiates through the KEYLESS impl, and
                          JAX's partial evaluation hoists / evaluates sites while linearising loops and branches - the
                          site is evaluated at trace time with the hidden counter key (baked into jit, ignored by seed). *)
Loops == {"scan", "while", "fori_static", "fori_dynamic", "cond", "switch"}
AdFamily(s, b) == \E i \in DOMAIN s :
    \/ (s[i] = "grad" /\ (b \/ Rng(SubSeq(s, i + 1, Len(s))) \cap Loops # {}))
    \/ (b /\ "grad" \in Rng(SubSeq(s, i + 1, Len(s))))
VmapFamily(s, b) == "vmap" \in Rng(Below(s, InnerSeed(s))) /\ (~b \/ "grad" \in Rng(s))
Family(s, b) == IF AdFamily(s, b) THEN "ad-through-site" ELSE IF VmapFamily(s, b) THEN "vmap-unbatched-site" ELSE "none"
KnownReplication == Family(st, batched) # "none"
Conforms(impl, want) == impl = want \/ (want = "error" /\ impl \in {"error", "lowering"})
LoweringOK == ~KnownReplication => Conforms(Exec(st, "eager", batched), Outcome(st, batched))
ReplicationDefect == KnownReplication => Conforms(Exec(st, "eager", batched), Outcome(st, batched))   \* expected to FAIL (known finding)
NeverHidden == Exec(st, "eager", batched) \notin {"hidden"}
NeverHiddenOld == ExecOld(st, "eager", batched) # "hidden"                                    \* expected to FAIL (pre-repair model)

Export == TLCGet("level") >= 0 /\
          JsonSerialize(IOEnv.GX_OUT \o "/lowering.json",
                        SetToSeq({[st |-> s, batched |-> b, outcome |-> Outcome(s, b), impl |-> Exec(s, "eager", b), family |-> Family(s, b)] : s \in Stacks, b \in BOOLEAN}))
=============================================================================
