SPECIFICATION Spec
CONSTANTS ModelName = "rect23"
 T = 2
INVARIANT FilterOK
INVARIANT KalmanOK
INVARIANT PrintHMM
INVARIANT PrintKalman
