SPECIFICATION Spec
INVARIANT Tight
INVARIANT Bound
INVARIANT ValueUnbiased
INVARIANT GradUnbiased
INVARIANT Ascent
INVARIANT LoopOK
INVARIANT GaussTight
INVARIANT PrintBern
INVARIANT PrintLoop
