SPECIFICATION Spec
CONSTANTS ModelName = "sparse3"
 T = 1
INVARIANT FilterOK
INVARIANT KalmanOK
INVARIANT PrintHMM
INVARIANT PrintKalman
