------------------------------ MODULE SMCTrace ------------------------------
(* Code -> spec for C10: runs of the real rejuvenation_smc (REAL randomness, return_all_particles) on the dyadic
   state-space model of SMC.tla are recorded step by step - per particle latent z and integer log2 weight, and the
   scaled evidence estimate - and validated against the Contract: every step must be explainable as
       extend (each particle draws a new latent from its ancestor's latent, weight += log p(x_t | z))
       -> resample iff ESS < N div 2 (all fields of particle j from ONE ancestor, weights 0, estimate *= mean weight)
       -> rejuvenation moves (latent may change, weights untouched).
   Unlogged nondeterminism (the pre-rejuvenation latents, the ancestor vector) is inferred by TLC.
   Events: [N, obs (seq), steps (seq of [z, lw, zs (scaled estimate)]), rejuv (bool), prev0]; scaled estimate =
   exp(log_marginal_likelihood()) * (4N)^T, an integer.                                                                  *)
EXTENDS Integers, Sequences, FiniteSets, FiniteSetsExt, TLC, TLCExt, Json, IOUtils

Events == JsonDeserialize(IOEnv.TRACE_FILE)
K == 3
V == 0..(K - 1)
NLT(prev, z) == IF z = prev THEN 1 ELSE 2
NLE(z, x) == IF x = (z + 1) % K THEN 1 ELSE 2
Pow2(n) == 2 ^ n
Sum(f, S) == FoldSet(LAMBDA x, acc : acc + f[x], 0, S)
(* ESS < N div 2 with weights 2^lw:  (sum w)^2 / sum w^2 < N div 2, in integers after scaling by 2^m *)
EssLow(lw, N) == LET m == CHOOSE mm \in 0..60 : \A i \in 1..N : 0 - lw[i] <= mm /\ \E j \in 1..N : 0 - lw[j] = mm
                     w == [i \in 1..N |-> Pow2(m + lw[i])]
                     s1 == Sum(w, 1..N) s2 == Sum([i \in 1..N |-> w[i] * w[i]], 1..N)
                 IN s1 * s1 < (N \div 2) * s2
(* the accumulated estimate is recorded as zs_t = exp(log_marginal_estimate_t) * (4N)^t, an integer *)
MaxNeg(lw, N) == CHOOSE mm \in 0..60 : \A i \in 1..N : 0 - lw[i] <= mm /\ \E j \in 1..N : 0 - lw[j] = mm
StepOK(ev, t) ==
  LET N == ev.N
      x == ev.obs[t]
      cur == ev.steps[t]
      prevlw == IF t = 1 THEN [i \in 1..N |-> 0] ELSE ev.steps[t - 1].lw
  IN \* only e_i = NLE(z_i, x) of the (unlogged) extension draw z_i matters for the weights: e_i = 1 iff z_i = (x + 2) % K
     \E e \in [1..N -> {1, 2}] :
       LET lwext == [i \in 1..N |-> prevlw[i] - e[i]]
           res == EssLow(lwext, N)
           prevzs == IF t = 1 THEN 1 ELSE ev.steps[t - 1].zs
           m == MaxNeg(lwext, N)
           Compatible(z, ee) == (ee = 1) <=> (z = (x + 2) % K)
       IN IF res
          THEN /\ \A i \in 1..N : cur.lw[i] = 0
               /\ \A j \in 1..N : ev.rejuv \/ \E a \in 1..N : Compatible(cur.z[j], e[a])               \* some ancestor explains the copy
               /\ cur.zs * Pow2(m) = prevzs * 4 * Sum([i \in 1..N |-> Pow2(m + lwext[i])], 1..N)     \* estimate *= mean weight
          ELSE /\ \A i \in 1..N : cur.lw[i] = lwext[i]
               /\ \A i \in 1..N : ev.rejuv \/ Compatible(cur.z[i], e[i])
               /\ cur.zs = prevzs * 4 * N                                                             \* estimate unchanged
Failing(ev) ==
  {t \in 1..Len(ev.steps) : ~StepOK(ev, t)}
(* steps at which the recorded run must have resampled (weights reset although the extension changed them) *)
Fired(ev) == {t \in 1..Len(ev.steps) : (\A i \in 1..ev.N : ev.steps[t].lw[i] = 0) /\ ev.steps[t].zs # (IF t = 1 THEN 1 ELSE ev.steps[t - 1].zs) * 4 * ev.N}
VARIABLE l
Init == l = 1
Step == /\ l <= Len(Events)
        /\ LET f == Failing(Events[l]) IN IF f = {} THEN TRUE ELSE PrintT(<<"REJECT", l, f>>)
        /\ LET g == Fired(Events[l]) IN IF g = {} THEN TRUE ELSE PrintT(<<"FIRED", l, g>>)
        /\ l' = l + 1
Spec == Init /\ [][Step]_l
Done == (l = Len(Events) + 1) => PrintT("ALLCHECKED")
=============================================================================
