SPECIFICATION Spec
CONSTANTS Depth = 2
          AtomKind = "possmall"
INVARIANT Agree
INVARIANT AlgebraOr
INVARIANT AlgebraAnd
INVARIANT AlgebraNot
INVARIANT DeMorgan
INVARIANT Extremes
INVARIANT StrTup
INVARIANT FilterAgree
INVARIANT FilterPartition
POSTCONDITION Export
