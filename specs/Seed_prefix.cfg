SPECIFICATION Spec
CONSTANTS MaxSteps = 0
          Level = 1
          WithOpaque = TRUE
INVARIANT NoHiddenOld
