SPECIFICATION Spec
CONSTANTS Progs = {"fn3"}
          MaxOps = 1
          OpKinds = {"simulate", "generate"}
          MaxCons = 4
          UpdArgs = "all"
INVARIANT Coherent
INVARIANT SimulateOK
INVARIANT SimTotalProb
INVARIANT GenerateOK
