SPECIFICATION Spec
CONSTANTS Depth = 3
INVARIANT LoweringOK
INVARIANT NeverHidden
POSTCONDITION Export
