------------------------------- MODULE Resample -------------------------------
(* C12: resampling copies particles faithfully, preserves the estimate, and is unbiased.

   Weights are integers W[i] >= 0, not all zero (a zero models log weight -inf); Wtot = sum.
   Impl     : Systematic(k)  - inference/smc.py systematic_resample: positions (j + u)/N for j = 0..N-1 against the
                               cumulative normalised weights, searchsorted (left): first index whose cumulative sum is
                               >= the position. The ancestor vector is constant between consecutive breakpoints of u;
                               all breakpoints lie on the grid m/Wtot, so u = (2k+1)/(2 Wtot), k = 0..Wtot-1, visits
                               every interval (midpoints: no ties).
              Categorical(anc) - N independent draws, mass prod W[anc[j]] / Wtot^N.
              ResampleMove   - ParticleCollection after resample(): every field of particle j copied from anc[j],
                               log weights 0, log_marginal_estimate += log(mean weight), diagnostic = normalised weights.
   Contract : counts in {floor, ceil}(N W_i / Wtot) for every offset; expected counts N W_i / Wtot for both methods;
              log_marginal_likelihood() unchanged; same number of particles; zero-weight particles never copied.          *)
EXTENDS Integers, Sequences, SequencesExt, FiniteSets, FiniteSetsExt, TLC, TLCExt, Json, IOUtils

CONSTANTS N, MaxW

Sum(f, S) == FoldSet(LAMBDA x, acc : acc + f[x], 0, S)
Wtot(W) == Sum(W, 1..N)
Cum(W, i) == Sum(W, 1..i)
Weights == {W \in [1..N -> 0..MaxW] : Wtot(W) > 0}

(* ancestors for offset u = (2k+1)/(2 Wtot):  first i with Cum(i)/Wtot >= (j + u)/N  <=>  2 N Cum(i) >= 2 Wtot j + 2k + 1 *)
Systematic(W, k) == [j \in 1..N |-> CHOOSE i \in 1..N : /\ 2 * N * Cum(W, i) >= 2 * Wtot(W) * (j - 1) + 2 * k + 1
                                                       /\ \A m \in 1..(i - 1) : 2 * N * Cum(W, m) < 2 * Wtot(W) * (j - 1) + 2 * k + 1]
Count(anc, i) == Cardinality({j \in 1..N : anc[j] = i})

VARIABLES W, method, k, anc, phase, pc
vars == <<W, method, k, anc, phase, pc>>
(* the particle collection before: particle i has id i in every field, log weight log(W[i]), Zacc = za_n/za_d *)
Init == /\ W \in Weights /\ method \in {"systematic", "categorical"} /\ phase = "before"
        /\ k = 0 /\ anc = <<>>
        /\ pc = [ids |-> [i \in 1..N |-> i], w |-> W, zacc |-> <<3, 4>>, diag |-> <<>>]
DoSystematic == /\ phase = "before" /\ method = "systematic"
                /\ \E kk \in 0..(Wtot(W) - 1) : k' = kk /\ anc' = Systematic(W, kk)
                /\ phase' = "drawn" /\ UNCHANGED <<W, method, pc>>
DoCategorical == /\ phase = "before" /\ method = "categorical"
                 /\ \E a \in [1..N -> {i \in 1..N : W[i] > 0}] : anc' = a
                 /\ k' = 0 /\ phase' = "drawn" /\ UNCHANGED <<W, method, pc>>
(* resample(): every trace leaf indexed by the same ancestor vector; weights reset; estimate folded in *)
Move == /\ phase = "drawn"
        /\ pc' = [ids |-> [j \in 1..N |-> pc.ids[anc[j]]], w |-> [j \in 1..N |-> 1],
                  zacc |-> <<pc.zacc[1] * Wtot(W), pc.zacc[2] * N>>, diag |-> [i \in 1..N |-> <<W[i], Wtot(W)>>]]
        /\ phase' = "after" /\ UNCHANGED <<W, method, k, anc>>
Next == DoSystematic \/ DoCategorical \/ Move
Spec == Init /\ [][Next]_vars

(* ---- Contract ---- *)
FloorCeil == (phase # "before" /\ method = "systematic") =>
   \A i \in 1..N : LET c == Count(anc, i) IN c * Wtot(W) > N * W[i] - Wtot(W) /\ c * Wtot(W) < N * W[i] + Wtot(W)
NeverZero == phase # "before" => \A j \in 1..N : W[anc[j]] > 0
(* expected number of copies, exactly: sum over the Wtot equal-length offset intervals / over all ancestor vectors with their mass *)
SystematicUnbiased == phase = "before" =>
   \A i \in 1..N : FoldSet(LAMBDA kk, acc : acc + Count(Systematic(W, kk), i), 0, 0..(Wtot(W) - 1)) = N * W[i]
RECURSIVE Prod(_, _)
Prod(a, j) == IF j = 0 THEN 1 ELSE W[a[j]] * Prod(a, j - 1)
CategoricalUnbiased == (phase = "before" /\ N <= 4) =>
   \A i \in 1..N : FoldSet(LAMBDA a, acc : acc + Prod(a, N) * Count(a, i), 0, [1..N -> 1..N]) = N * W[i] * (Wtot(W) ^ (N - 1))
(* estimate preserved: Zacc' * mean(1) = Zacc * mean(W) ; same size; faithful copies *)
MoveOK == phase = "after" =>
   /\ pc.zacc[1] * 4 * N = 3 * Wtot(W) * pc.zacc[2]        \* Zacc' * mean(1) = (3/4) * mean(W): log_marginal_likelihood() unchanged
   /\ Len(pc.ids) = N /\ \A j \in 1..N : pc.ids[j] = anc[j] /\ pc.w[j] = 1
PrintCase == phase = "drawn" => PrintT(<<"CASE", method, W, k, anc>>)
=============================================================================
