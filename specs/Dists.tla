-------------------------------- MODULE Dists --------------------------------
(* C13: documented parameterisations of the 24 exported distributions, as exact log densities at grid points.

   Log densities live in the ring  Q + Q ln2 + Q ln3 + Q ln5 + Q ln7 + Q ln(pi):  <<c0, c2, c3, c5, c7, cpi>>.
   LnRat(n, d) is defined for 7-smooth positive integers.  Each table row is
       [dist, how (how the harness passes the parameters), params, value, lp (ring element), kind]
   "documented" = the Args: line of the docstring in distributions.py together with the property text:
     flip(p) probability -> booleans; bernoulli / categorical / geometric / binomial / multinomial first take logits (probs by keyword);
     exponential(rate); geometric counts failures before the first success; gamma(concentration, rate); multivariate_normal(mean, covariance);
     normal / log_normal / laplace / cauchy (loc, scale); negative_binomial(total_count, probs = success probability, counts successes).
   TLC checks: finite supports sum to one exactly (FiniteNormalised); the ring arithmetic is consistent (RingSanity).           *)
EXTENDS Rational, Sequences, SequencesExt, FiniteSets, FiniteSetsExt, TLC, TLCExt, Json, IOUtils

Z6 == <<R(0), R(0), R(0), R(0), R(0), R(0)>>
E(i, q) == [j \in 1..6 |-> IF j = i THEN q ELSE R(0)]
C0(q) == E(1, q)
LN2 == E(2, R(1))
LN3 == E(3, R(1))
LN5 == E(4, R(1))
LN7 == E(5, R(1))
LNPI == E(6, R(1))
XAdd(a, b) == [j \in 1..6 |-> RAdd(a[j], b[j])]
XSub(a, b) == [j \in 1..6 |-> RSub(a[j], b[j])]
XScale(q, a) == [j \in 1..6 |-> RMul(q, a[j])]
XSum(s) == FoldLeft(XAdd, Z6, s)
RECURSIVE Mult(_, _)
Mult(n, p) == IF n % p = 0 THEN 1 + Mult(n \div p, p) ELSE 0          \* multiplicity of prime p in n
LnInt(n) == XAdd(XAdd(XScale(R(Mult(n, 2)), LN2), XScale(R(Mult(n, 3)), LN3)), XAdd(XScale(R(Mult(n, 5)), LN5), XScale(R(Mult(n, 7)), LN7)))
Smooth(n) == n = (2 ^ Mult(n, 2)) * (3 ^ Mult(n, 3)) * (5 ^ Mult(n, 5)) * (7 ^ Mult(n, 7))
LnRat(n, d) == XSub(LnInt(n), LnInt(d))
LnQ(q) == LnRat(q[1], q[2])
RECURSIVE Fact(_)
Fact(k) == IF k <= 1 THEN 1 ELSE k * Fact(k - 1)
Half == Q(1, 2)
LN2PI == XAdd(LN2, LNPI)

(* ---- the table ---- *)
Row(d, how, ps, v, lp) == [dist |-> d, how |-> how, params |-> ps, value |-> v, lp |-> lp]
(* parameters / values are given as small records the harness understands: rationals <<n,d>>, "ln" of a rational, vectors *)
LnP(q) == [ln |-> q]            \* the real number ln(q) (e.g. logits)
NormalLP(x, mu, sd) == XSub(XSub(C0(RNeg(RDiv(RSq(RSub(x, mu)), RMul(R(2), RSq(sd))))), LnQ(sd)), XScale(Half, LN2PI))
Table == <<
  Row("bernoulli", "pos", <<LnP(R(3))>>, R(1), LnRat(3, 4)),
  Row("bernoulli", "pos", <<LnP(R(3))>>, R(0), LnRat(1, 4)),
  Row("bernoulli", "kw:probs", <<Q(1, 4)>>, R(1), LnRat(1, 4)),
  Row("flip", "pos", <<Q(1, 4)>>, "true", LnRat(1, 4)),
  Row("flip", "pos", <<Q(1, 4)>>, "false", LnRat(3, 4)),
  Row("beta", "pos", <<R(2), R(3)>>, Half, LnRat(3, 2)),
  Row("beta", "pos", <<R(1), R(1)>>, Q(1, 4), Z6),
  Row("categorical", "pos", <<[vec |-> <<LnP(Q(1, 2)), LnP(Q(1, 4)), LnP(Q(1, 4))>>]>>, R(0), LnRat(1, 2)),
  Row("categorical", "pos", <<[vec |-> <<LnP(Q(1, 2)), LnP(Q(1, 4)), LnP(Q(1, 4))>>]>>, R(2), LnRat(1, 4)),
  Row("categorical", "pos", <<[vec |-> <<LnP(R(1)), LnP(R(3))>>]>>, R(1), LnRat(3, 4)),            \* unnormalised logits (0, ln 3)
  (* batched parameters: one distribution per row / coordinate; the row's log density is the sum over the batch *)
  Row("categorical", "pos", <<[mat |-> <<<<LnP(R(4)), LnP(R(1)), LnP(R(1))>>, <<LnP(R(1)), LnP(R(1)), LnP(R(2))>>>>]>>, [vec |-> <<R(0), R(2)>>],
      XAdd(LnRat(2, 3), LnRat(1, 2))),
  Row("bernoulli", "pos", <<[vec |-> <<LnP(R(3)), LnP(Q(1, 3))>>]>>, [vec |-> <<R(1), R(1)>>], XAdd(LnRat(3, 4), LnRat(1, 4))),
  Row("normal", "pos", <<[vec |-> <<R(0), R(1)>>], R(1)>>, [vec |-> <<R(1), R(1)>>], XAdd(NormalLP(R(1), R(0), R(1)), NormalLP(R(1), R(1), R(1)))),
  Row("geometric", "kw:probs", <<Q(1, 4)>>, R(2), LnRat(9, 64)),                                   \* failures before the first success
  Row("geometric", "kw:probs", <<Q(1, 4)>>, R(0), LnRat(1, 4)),
  Row("geometric", "pos", <<LnP(Q(1, 3))>>, R(1), LnRat(3, 16)),                                   \* first positional = logits
  Row("normal", "pos", <<R(0), R(1)>>, R(1), NormalLP(R(1), R(0), R(1))),
  Row("normal", "pos", <<R(1), R(2)>>, R(3), NormalLP(R(3), R(1), R(2))),
  Row("uniform", "pos", <<R(0), R(4)>>, R(1), LnRat(1, 4)),
  Row("exponential", "pos", <<R(2)>>, Half, XAdd(LN2, C0(R(0 - 1)))),                              \* rate
  Row("poisson", "pos", <<R(2)>>, R(3), XAdd(XSub(XScale(R(3), LN2), LnInt(6)), C0(R(0 - 2)))),
  Row("multivariate_normal", "pos", <<[vec |-> <<R(0), R(0)>>], [mat |-> <<<<R(2), R(0)>>, <<R(0), Half>>>>]>>, [vec |-> <<R(1), R(1)>>],
      XSub(C0(Q(0 - 5, 4)), LN2PI)),
  Row("multivariate_normal", "pos", <<[vec |-> <<R(0), R(0)>>], [mat |-> <<<<R(2), R(1)>>, <<R(1), R(1)>>>>]>>, [vec |-> <<R(1), R(0)>>],
      XSub(C0(Q(0 - 1, 2)), LN2PI)),                                                               \* a covariance matrix (det 1), not a scale
  Row("dirichlet", "pos", <<[vec |-> <<R(1), R(2), R(1)>>]>>, [vec |-> <<Q(1, 4), Half, Q(1, 4)>>], LnInt(3)),
  Row("binomial", "kw:total_count,probs", <<R(4), Q(1, 4)>>, R(1), LnRat(27, 64)),
  Row("binomial", "pos", <<R(4), LnP(Q(1, 3))>>, R(0), LnRat(81, 256)),                            \* second positional = logits
  Row("gamma", "pos", <<R(2), R(3)>>, Q(1, 3), XAdd(LN3, C0(R(0 - 1)))),                           \* (concentration, rate)
  Row("log_normal", "pos", <<R(0), R(1)>>, R(1), XScale(RNeg(Half), LN2PI)),
  Row("log_normal", "pos", <<R(0), R(1)>>, R(2), XSub(XSub(XScale(RNeg(Half), LN2PI), LN2), [j \in 1..6 |-> R(0)])),   \* + ( -(ln 2)^2 / 2 ): not in the ring, see NOTE
  Row("student_t", "pos", <<R(1), R(0), R(1)>>, R(0), XScale(R(0 - 1), LNPI)),
  Row("student_t", "pos", <<R(3), R(0), R(1)>>, R(0), XSub(XSub(LN2, XScale(Half, LN3)), LNPI)),
  Row("laplace", "pos", <<R(0), R(2)>>, R(2), XAdd(XScale(R(0 - 2), LN2), C0(R(0 - 1)))),
  Row("half_normal", "pos", <<R(2)>>, R(2), XAdd(XSub(XScale(RNeg(Half), LN2), XScale(Half, LNPI)), C0(RNeg(Half)))),
  Row("inverse_gamma", "pos", <<R(2), R(1)>>, Half, XAdd(XScale(R(3), LN2), C0(R(0 - 2)))),
  Row("weibull", "pos", <<R(2), R(1)>>, R(1), XAdd(LN2, C0(R(0 - 1)))),
  Row("cauchy", "pos", <<R(0), R(1)>>, R(1), XSub(XScale(R(0 - 1), LNPI), LN2)),
  Row("chi2", "pos", <<R(2)>>, R(2), XAdd(XScale(R(0 - 1), LN2), C0(R(0 - 1)))),
  Row("multinomial", "kw:total_count,probs", <<R(3), [vec |-> <<Half, Q(1, 4), Q(1, 4)>>]>>, [vec |-> <<R(1), R(1), R(1)>>], LnRat(3, 16)),
  Row("negative_binomial", "kw:total_count,probs", <<R(2), Q(1, 4)>>, R(1), LnRat(9, 32)),
  Row("zipf", "pos", <<R(2)>>, R(1), XSub(LnInt(6), XScale(R(2), LNPI))),
  Row("zipf", "pos", <<R(2)>>, R(2), XSub(XSub(LnInt(6), XScale(R(2), LNPI)), XScale(R(2), LN2))) >>
(* NOTE: the second log_normal row is exported with a flag so that the harness adds -(ln 2)^2/2 numerically *)
Extra == [i \in DOMAIN Table |-> IF Table[i].dist = "log_normal" /\ Table[i].value = R(2) THEN "minus_half_ln2_squared" ELSE "none"]

(* ---- finite supports: exact normalisation ---- *)
Binom(n, k) == Fact(n) \div (Fact(k) * Fact(n - k))
BinomialPmf(n, p, k) == RMul(R(Binom(n, k)), RMul(Q(p[1] ^ k, p[2] ^ k), Q((p[2] - p[1]) ^ (n - k), p[2] ^ (n - k))))
FiniteNormalised ==
  /\ FoldSet(LAMBDA k, acc : RAdd(acc, BinomialPmf(4, Q(1, 4), k)), R(0), 0..4) = R(1)
  /\ RAdd(Q(1, 4), Q(3, 4)) = R(1)
  /\ RAdd(Half, RAdd(Q(1, 4), Q(1, 4))) = R(1)
  /\ BinomialPmf(4, Q(1, 4), 1) = Q(27, 64)
  (* multinomial(3; 1/2, 1/4, 1/4): all count vectors *)
  /\ FoldSet(LAMBDA c, acc : RAdd(acc, RMul(R(Fact(3) \div (Fact(c[1]) * Fact(c[2]) * Fact(c[3]))),
                                            Q(1, (2 ^ c[1]) * (4 ^ c[2]) * (4 ^ c[3])))), R(0),
             {c \in [1..3 -> 0..3] : c[1] + c[2] + c[3] = 3}) = R(1)
(* geometric / negative binomial partial sums approach 1 from below with the exact tail *)
GeomTail == \A n \in 1..6 : RAdd(FoldSet(LAMBDA k, acc : RAdd(acc, RMul(Q(3 ^ k, 4 ^ k), Q(1, 4))), R(0), 0..(n - 1)), Q(3 ^ n, 4 ^ n)) = R(1)
RingSanity == /\ LnRat(8, 1) = XScale(R(3), LN2) /\ LnRat(1, 6) = XScale(R(0 - 1), XAdd(LN2, LN3))
              /\ \A i \in DOMAIN Table : \A j \in 1..6 : Table[i].lp[j][2] > 0
VARIABLE x
Init == x = 0
Next == UNCHANGED x
Spec == Init /\ [][Next]_x
(* Batching law: parameters (and values) of two rows of one distribution stacked along a NEW LEADING axis denote the two rows
   side by side - the log density of the batch is the row-wise log density (sum = lp_i + lp_j). Every distribution is a
   lane-wise family over leading batch axes; normalisation, shifts and reductions act on the event axes only.
   BatchPairs: the index pairs the harness stacks (a row with itself when a (distribution, call convention) has one row). *)
BatchPairs == LET I == DOMAIN Table
                  Same(i, j) == Table[i].dist = Table[j].dist /\ Table[i].how = Table[j].how
              IN {<<i, j>> : i \in I, j \in I} \cap
                 {pr \in I \X I : pr[1] <= pr[2] /\ Same(pr[1], pr[2])
                                  /\ (pr[1] = pr[2] => ~\E k \in I : k # pr[1] /\ Same(k, pr[1]))}
Export == TLCGet("level") >= 0 /\ JsonSerialize(IOEnv.GX_OUT \o "/dists.json", [table |-> Table, extra |-> Extra, pairs |-> SetToSeq(BatchPairs)])
=============================================================================
