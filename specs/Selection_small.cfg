SPECIFICATION Spec
CONSTANTS Depth = 1
          AtomKind = "small"
INVARIANT Agree
INVARIANT AlgebraOr
INVARIANT AlgebraAnd
INVARIANT AlgebraNot
INVARIANT DeMorgan
INVARIANT Extremes
INVARIANT StrTup
INVARIANT FilterAgree
INVARIANT FilterPartition
POSTCONDITION Export
