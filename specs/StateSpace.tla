------------------------------ MODULE StateSpace ------------------------------
(* C20: the exact state-space baselines are exact.

   HMM part (rational stochastic matrices, zeros allowed):
     Contract : brute-force summation over ALL state sequences - Joint, Evidence, Filter(t), Posterior over sequences.
     Impl     : the alpha recursion of forward_filter (alpha_1 = emit * init, alpha_t = emit * sum alpha_{t-1} trans,
                normalised per step, evidence = sum alpha_T) and the running product of compute_sequence_log_prob,
                one action per time step.
   Kalman part (scalar linear-Gaussian model, rationals, T = 2):
     Contract : conditioning the joint Gaussian of (x1, x2, y1, y2) - means / variances through one 2x2 Schur complement,
                quadratic form and determinant of the marginal covariance of y.
     Impl     : the predict / update recursion of kalman_filter and the RTS step of kalman_smoother.                       *)
EXTENDS Rational, Sequences, SequencesExt, FiniteSets, FiniteSetsExt, TLC, TLCExt

CONSTANTS ModelName, T

(* ---- models: [init, trans, emit] ---- *)
Models == [
  dense2 |-> [init |-> <<Q(1, 2), Q(1, 2)>>, trans |-> <<<<Q(3, 4), Q(1, 4)>>, <<Q(1, 3), Q(2, 3)>>>>, emit |-> <<<<Q(1, 2), Q(1, 2)>>, <<Q(1, 5), Q(4, 5)>>>>],
  sparse3 |-> [init |-> <<Q(1, 2), Q(1, 2), R(0)>>,
               trans |-> <<<<R(0), R(1), R(0)>>, <<Q(1, 2), R(0), Q(1, 2)>>, <<R(0), Q(1, 4), Q(3, 4)>>>>,
               emit |-> <<<<Q(1, 2), Q(1, 2), R(0)>>, <<R(0), Q(1, 3), Q(2, 3)>>, <<Q(1, 4), Q(1, 4), Q(1, 2)>>>>],
  rect23 |-> [init |-> <<Q(1, 4), Q(3, 4)>>, trans |-> <<<<Q(1, 2), Q(1, 2)>>, <<Q(1, 10), Q(9, 10)>>>>,
              emit |-> <<<<Q(1, 3), Q(1, 3), Q(1, 3)>>, <<Q(1, 2), R(0), Q(1, 2)>>>>] ]
Mdl == Models[ModelName]
K == Len(Mdl.init)
M == Len(Mdl.emit[1])
States == 1..K
ObsSeqs == [1..T -> 1..M]
SumR(S, f(_)) == FoldSet(LAMBDA x, acc : RAdd(acc, f(x)), R(0), S)

(* ---- Contract: brute force ---- *)
RECURSIVE JointUpTo(_, _, _)
JointUpTo(xs, ys, t) == IF t = 0 THEN R(1)
  ELSE RMul(JointUpTo(xs, ys, t - 1), RMul(IF t = 1 THEN Mdl.init[xs[1]] ELSE Mdl.trans[xs[t - 1]][xs[t]], Mdl.emit[xs[t]][ys[t]]))
Paths(t) == [1..t -> States]
EvidenceUpTo(ys, t) == SumR(Paths(t), LAMBDA xs : JointUpTo(xs, ys, t))
FilterBF(ys, t, x) == RDiv(SumR({xs \in Paths(t) : xs[t] = x}, LAMBDA xs : JointUpTo(xs, ys, t)), EvidenceUpTo(ys, t))

(* ---- Impl: alpha recursion, one action per time step ---- *)
VARIABLES ys, t, alpha, filt
vars == <<ys, t, alpha, filt>>
Init == /\ ys \in ObsSeqs /\ t = 0 /\ alpha = <<>> /\ filt = <<>>
        /\ EvidenceUpTo(ys, T) # R(0)                    \* observation sequences of positive probability
StepAlpha ==
  /\ t < T
  /\ LET a == IF t = 0 THEN [x \in States |-> RMul(Mdl.emit[x][ys[1]], Mdl.init[x])]
              ELSE [x \in States |-> RMul(Mdl.emit[x][ys[t + 1]], SumR(States, LAMBDA xp : RMul(alpha[xp], Mdl.trans[xp][x])))]
         tot == SumR(States, LAMBDA x : a[x])
     IN /\ alpha' = a
        /\ filt' = Append(filt, [x \in States |-> RDiv(a[x], tot)])
  /\ t' = t + 1 /\ UNCHANGED ys
Next == StepAlpha
Spec == Init /\ [][Next]_vars

FilterOK == t >= 1 => /\ \A x \in States : filt[t][x] = FilterBF(ys, t, x)
                      /\ SumR(States, LAMBDA x : alpha[x]) = EvidenceUpTo(ys, t)
PrintHMM == t = T => PrintT(<<"HMM", ModelName, ys, filt, EvidenceUpTo(ys, T),
                              SetToSeq({<<xs, JointUpTo(xs, ys, T)>> : xs \in {p \in Paths(T) : JointUpTo(p, ys, T) # R(0)}})>>)

(* ---- Kalman, scalar, T = 2 ---- *)
KParams == {[m0 |-> R(0), p0 |-> R(1), a |-> Q(1, 2), q |-> Q(1, 4), c |-> R(1), r |-> Q(1, 2)],
            [m0 |-> R(1), p0 |-> R(2), a |-> R(1), q |-> R(1), c |-> R(2), r |-> R(1)],
            [m0 |-> Q(1, 2), p0 |-> Q(1, 2), a |-> R(0 - 1), q |-> Q(1, 2), c |-> Q(1, 2), r |-> Q(1, 4)]}
KObs == {<<R(1), R(0)>>, <<Q(1, 2), R(2)>>, <<R(0 - 1), R(1)>>}
KalmanImpl(P, y) ==
  LET s1 == RAdd(RMul(RSq(P.c), P.p0), P.r)              \* innovation variance
      k1 == RDiv(RMul(P.p0, P.c), s1)
      nu1 == RSub(y[1], RMul(P.c, P.m0))
      m1 == RAdd(P.m0, RMul(k1, nu1))
      p1 == RSub(P.p0, RMul(RMul(k1, P.c), P.p0))
      mp == RMul(P.a, m1)
      pp == RAdd(RMul(RSq(P.a), p1), P.q)
      s2 == RAdd(RMul(RSq(P.c), pp), P.r)
      k2 == RDiv(RMul(pp, P.c), s2)
      nu2 == RSub(y[2], RMul(P.c, mp))
      m2 == RAdd(mp, RMul(k2, nu2))
      p2 == RSub(pp, RMul(RMul(k2, P.c), pp))
      (* RTS smoother for x1 *)
      g == RDiv(RMul(p1, P.a), pp)
      ms1 == RAdd(m1, RMul(g, RSub(m2, mp)))
      ps1 == RAdd(p1, RMul(RSq(g), RSub(p2, pp)))
  IN [m |-> <<m1, m2>>, p |-> <<p1, p2>>, ms |-> <<ms1, m2>>, ps |-> <<ps1, p2>>,
      quad |-> RAdd(RDiv(RSq(nu1), s1), RDiv(RSq(nu2), s2)), det |-> RMul(s1, s2)]
(* Contract: joint Gaussian of (x1, x2, y1, y2) and conditioning *)
KalmanBF(P, y) ==
  LET v1 == P.p0                                         \* var x1
      v2 == RAdd(RMul(RSq(P.a), v1), P.q)                \* var x2
      c12 == RMul(P.a, v1)                               \* cov(x1, x2)
      mx1 == P.m0
      mx2 == RMul(P.a, P.m0)
      syy == <<<<RAdd(RMul(RSq(P.c), v1), P.r), RMul(RSq(P.c), c12)>>, <<RMul(RSq(P.c), c12), RAdd(RMul(RSq(P.c), v2), P.r)>>>>
      det == RSub(RMul(syy[1][1], syy[2][2]), RMul(syy[1][2], syy[2][1]))
      inv == <<<<RDiv(syy[2][2], det), RNeg(RDiv(syy[1][2], det))>>, <<RNeg(RDiv(syy[2][1], det)), RDiv(syy[1][1], det)>>>>
      d == <<RSub(y[1], RMul(P.c, mx1)), RSub(y[2], RMul(P.c, mx2))>>
      w == <<RAdd(RMul(inv[1][1], d[1]), RMul(inv[1][2], d[2])), RAdd(RMul(inv[2][1], d[1]), RMul(inv[2][2], d[2]))>>   \* Syy^-1 d
      cx1y == <<RMul(P.c, v1), RMul(P.c, c12)>>
      cx2y == <<RMul(P.c, c12), RMul(P.c, v2)>>
      cond(mx, cxy, vx) == [m |-> RAdd(mx, RAdd(RMul(cxy[1], w[1]), RMul(cxy[2], w[2]))),
                            v |-> RSub(vx, RAdd(RMul(cxy[1], RAdd(RMul(inv[1][1], cxy[1]), RMul(inv[1][2], cxy[2]))),
                                                RMul(cxy[2], RAdd(RMul(inv[2][1], cxy[1]), RMul(inv[2][2], cxy[2])))))]
      (* filtering distribution of x1 uses y1 only *)
      f1m == RAdd(mx1, RMul(RDiv(RMul(P.c, v1), syy[1][1]), d[1]))
      f1v == RSub(v1, RDiv(RSq(RMul(P.c, v1)), syy[1][1]))
  IN [f1 |-> <<f1m, f1v>>, x2 |-> cond(mx2, cx2y, v2), x1s |-> cond(mx1, cx1y, v1),
      quad |-> RAdd(RMul(d[1], w[1]), RMul(d[2], w[2])), det |-> det]
KalmanOK == \A P \in KParams : \A y \in KObs :
   LET I == KalmanImpl(P, y) B == KalmanBF(P, y) IN
   /\ I.m[1] = B.f1[1] /\ I.p[1] = B.f1[2]
   /\ I.m[2] = B.x2.m /\ I.p[2] = B.x2.v
   /\ I.ms[1] = B.x1s.m /\ I.ps[1] = B.x1s.v
   /\ I.quad = B.quad /\ I.det = B.det
PrintKalman == (t = 0 /\ ys = [i \in 1..T |-> 1]) =>
   PrintT(<<"KALMAN", SetToSeq({<<P, y, KalmanBF(P, y)>> : P \in KParams, y \in KObs})>>)
=============================================================================
