SPECIFICATION Spec
CONSTANTS MaxSites = 2
INVARIANT Unbiased
INVARIANT EnumExact
