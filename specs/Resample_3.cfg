SPECIFICATION Spec
CONSTANTS N = 3
 MaxW = 3
INVARIANT FloorCeil
INVARIANT NeverZero
INVARIANT SystematicUnbiased
INVARIANT CategoricalUnbiased
INVARIANT MoveOK
INVARIANT PrintCase
