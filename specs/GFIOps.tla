------------------------------- MODULE GFIOps -------------------------------
(* Constant-level operators of the GFI specification: program evaluation, the Impl transcription of the five
   GFI methods of Distribution / Fn / Vmap / Scan / Cond (ISim, IGen, IAssess, IUpd, IRegen) and the
   denotational Contract (LeafNL, Density, RV). No variables: used by GFI.tla (state machine), GFITrace.tla
   (validation of recorded real executions), MCMC.tla and SMC.tla.                                          *)
EXTENDS Integers, Sequences, SequencesExt, FiniteSets, FiniteSetsExt, Functions, TLC, TLCExt, Json, IOUtils,
        GFIPrograms, SelOps

K == 3
V == 0..(K - 1)
NL(off, par, v) == IF v = (par + off) % K THEN 1 ELSE 2
Pow2(n) == 2 ^ n
SumSeq(s) == FoldLeft(LAMBDA a, b : a + b, 0, s)
SumOver(S, f(_)) == FoldSet(LAMBDA x, acc : acc + f(x), 0, S)
Ext(f, k, v) == [x \in DOMAIN f \cup {k} |-> IF x = k THEN v ELSE f[x]]
Ix(i) == ToString(i)
IsIx(a) == a \in {"1", "2", "3", "4"}

RECURSIVE Eval(_, _, _)
Eval(e, arg, env) ==
  CASE e[1] = "arg"   -> arg
    [] e[1] = "val"   -> env[e[2]]
    [] e[1] = "const" -> e[2]
    [] e[1] = "add"   -> (Eval(e[2], arg, env) + Eval(e[3], arg, env)) % K
    [] e[1] = "eq"    -> IF Eval(e[2], arg, env) = Eval(e[3], arg, env) THEN 1 ELSE 0
    [] e[1] = "pair"  -> <<Eval(e[2], arg, env), Eval(e[3], arg, env)>>
    [] e[1] = "seq"   -> <<Eval(e[2], arg, env), Eval(e[3], arg, env)>>
    [] e[1] = "fst"   -> Eval(e[2], arg, env)[1]
    [] e[1] = "snd"   -> Eval(e[2], arg, env)[2]
    [] e[1] = "sum"   -> SumSeq(Eval(e[2], arg, env)) % K

(* argument space of a top-level program: an integer, <<check, integer>> for a top-level cond, <<carry, xs>> for a scan ... *)
ArgsOf(g) == IF GF[g].kind = "cond" THEN {<<c, a>> : c \in {0, 1}, a \in V}
             ELSE IF GF[g].kind = "scan" THEN {<<c, xs>> : c \in V, xs \in [1..GF[g].n -> V]}
             ELSE IF GF[g].kind = "vmap" /\ ~GF[g].bcast THEN {<<a, b>> : a \in V, b \in V}
             ELSE V

-----------------------------------------------------------------------------
(* ----------------------------- traces (Impl data) ----------------------------- *)
NoTrace == [k |-> "none"]
RECURSIVE Score(_), Ret(_), ChoicesOf(_)
Score(t) == CASE t.k = "d" -> t.sc
              [] t.k = "f" -> t.sc
              [] t.k \in {"v", "s"} -> SumSeq([i \in DOMAIN t.items |-> Score(t.items[i])])
              [] t.k = "c" -> IF t.chk = 1 THEN Score(t.t) ELSE Score(t.f)
Ret(t) == CASE t.k = "d" -> t.v
            [] t.k = "c" -> IF t.chk = 1 THEN Ret(t.t) ELSE Ret(t.f)
            [] OTHER -> t.ret
ChoicesOf(t) == CASE t.k = "d" -> t.v
                [] t.k = "f" -> [a \in DOMAIN t.sub |-> ChoicesOf(t.sub[a])]
                [] t.k \in {"v", "s"} -> [i \in DOMAIN t.items |-> ChoicesOf(t.items[i])]
                [] t.k = "c" -> IF t.chk = 1 THEN ChoicesOf(t.t) ELSE ChoicesOf(t.f)

(* constraints: [k |-> "none"] | [k |-> "val", v] | [k |-> "map", m] | [k |-> "items", items] *)
NoC == [k |-> "none"]
Has(c) == c.k # "none"
CalleeAt(g, a) == GF[g].sites[CHOOSE i \in DOMAIN GF[g].sites : GF[g].sites[i].addr = a].callee
RECURSIVE ToCons(_, _)
ToCons(g, ch) ==
  LET G == GF[g] IN
  CASE G.kind = "dist" -> [k |-> "val", v |-> ch]
    [] G.kind = "fn"   -> [k |-> "map", m |-> [a \in DOMAIN ch |-> ToCons(CalleeAt(g, a), ch[a])]]
    [] G.kind \in {"vmap", "scan"} -> [k |-> "items", items |-> [i \in DOMAIN ch |-> ToCons(G.callee, ch[i])]]
    [] G.kind = "cond" -> ToCons(G.t, ch)
(* c2 overrides c1 (Fn.merge(x, x_) without check, x_ takes precedence) *)
RECURSIVE MergeCons(_, _)
MergeCons(c1, c2) ==
  IF ~Has(c2) THEN c1 ELSE IF ~Has(c1) THEN c2
  ELSE CASE c2.k = "val" -> c2
         [] c2.k = "map" -> [k |-> "map", m |-> [a \in DOMAIN c1.m \cup DOMAIN c2.m |->
                               IF a \in DOMAIN c1.m /\ a \in DOMAIN c2.m THEN MergeCons(c1.m[a], c2.m[a])
                               ELSE IF a \in DOMAIN c2.m THEN c2.m[a] ELSE c1.m[a]]]
         [] c2.k = "items" -> [k |-> "items", items |-> [i \in DOMAIN c2.items |-> MergeCons(c1.items[i], c2.items[i])]]

-----------------------------------------------------------------------------
(* ----------------------------- Impl: simulate ----------------------------- *)
RECURSIVE ISim(_, _, _, _)
ISim(g, arg, scr, path) ==
  LET G == GF[g] IN
  CASE G.kind = "dist" ->
         LET v == (scr[path] + G.soff) % K IN [k |-> "d", v |-> v, sc |-> NL(G.off, arg, v), arg |-> arg]
    [] G.kind = "fn" ->
         LET S == G.sites
             F[n \in 0..Len(S)] ==
               IF n = 0 THEN [env |-> <<>>, sub |-> <<>>, sc |-> 0]
               ELSE LET st == S[n]
                        p  == F[n - 1]
                        tr == ISim(st.callee, Eval(st.arg, arg, p.env), scr, Append(path, st.addr))
                    IN [env |-> Ext(p.env, st.addr, Ret(tr)), sub |-> Ext(p.sub, st.addr, tr), sc |-> p.sc + Score(tr)]
             r == F[Len(S)]
         IN [k |-> "f", sub |-> r.sub, ret |-> Eval(G.ret, arg, r.env), sc |-> r.sc, arg |-> arg]
    [] G.kind = "vmap" ->
         LET items == [i \in 1..G.n |-> ISim(G.callee, IF G.bcast THEN arg ELSE arg[i], scr, Append(path, Ix(i)))]
         IN [k |-> "v", items |-> items, ret |-> [i \in 1..G.n |-> Ret(items[i])], arg |-> arg]
    [] G.kind = "scan" ->
         LET C[i \in 0..G.n] ==
               IF i = 0 THEN [carry |-> arg[1], items |-> <<>>]
               ELSE LET p == C[i - 1]
                        tr == ISim(G.callee, <<p.carry, arg[2][i]>>, scr, Append(path, Ix(i)))
                    IN [carry |-> Ret(tr)[1], items |-> Append(p.items, tr)]
             r == C[G.n]
         IN [k |-> "s", items |-> r.items, ret |-> <<r.carry, [i \in 1..G.n |-> Ret(r.items[i])[2]]>>, arg |-> arg]
    [] G.kind = "cond" ->
         [k |-> "c", chk |-> arg[1], t |-> ISim(G.t, arg[2], scr, path), f |-> ISim(G.f, arg[2], scr, path), arg |-> arg]

(* ----------------------------- Impl: generate ----------------------------- *)
RECURSIVE IGen(_, _, _, _, _)
IGen(g, arg, c, scr, path) ==
  LET G == GF[g] IN
  CASE G.kind = "dist" ->
         IF Has(c) THEN [tr |-> [k |-> "d", v |-> c.v, sc |-> NL(G.off, arg, c.v), arg |-> arg], w |-> -NL(G.off, arg, c.v)]
         ELSE [tr |-> ISim(g, arg, scr, path), w |-> 0]
    [] G.kind = "fn" ->
         IF ~Has(c) THEN [tr |-> ISim(g, arg, scr, path), w |-> 0]
         ELSE
         LET S == G.sites
             F[n \in 0..Len(S)] ==
               IF n = 0 THEN [env |-> <<>>, sub |-> <<>>, sc |-> 0, w |-> 0]
               ELSE LET st == S[n]
                        p  == F[n - 1]
                        x  == IF st.addr \in DOMAIN c.m THEN c.m[st.addr] ELSE NoC
                        r  == IGen(st.callee, Eval(st.arg, arg, p.env), x, scr, Append(path, st.addr))
                    IN [env |-> Ext(p.env, st.addr, Ret(r.tr)), sub |-> Ext(p.sub, st.addr, r.tr),
                        sc |-> p.sc + Score(r.tr), w |-> p.w + r.w]
             r == F[Len(S)]
         IN [tr |-> [k |-> "f", sub |-> r.sub, ret |-> Eval(G.ret, arg, r.env), sc |-> r.sc, arg |-> arg], w |-> r.w]
    [] G.kind = "vmap" ->
         LET rs == [i \in 1..G.n |-> IGen(G.callee, IF G.bcast THEN arg ELSE arg[i],
                                          IF Has(c) THEN c.items[i] ELSE NoC, scr, Append(path, Ix(i)))]
         IN [tr |-> [k |-> "v", items |-> [i \in 1..G.n |-> rs[i].tr], ret |-> [i \in 1..G.n |-> Ret(rs[i].tr)], arg |-> arg],
             w |-> SumSeq([i \in 1..G.n |-> rs[i].w])]
    [] G.kind = "scan" ->
         LET C[i \in 0..G.n] ==
               IF i = 0 THEN [carry |-> arg[1], items |-> <<>>, w |-> 0]
               ELSE LET p == C[i - 1]
                        r == IGen(G.callee, <<p.carry, arg[2][i]>>, IF Has(c) THEN c.items[i] ELSE NoC, scr, Append(path, Ix(i)))
                    IN [carry |-> Ret(r.tr)[1], items |-> Append(p.items, r.tr), w |-> p.w + r.w]
             r == C[G.n]
         IN [tr |-> [k |-> "s", items |-> r.items, ret |-> <<r.carry, [i \in 1..G.n |-> Ret(r.items[i])[2]]>>, arg |-> arg], w |-> r.w]
    [] G.kind = "cond" ->
         LET rt == IGen(G.t, arg[2], c, scr, path)
             rf == IGen(G.f, arg[2], c, scr, path)
         IN [tr |-> [k |-> "c", chk |-> arg[1], t |-> rt.tr, f |-> rf.tr, arg |-> arg],
             w |-> IF ~Has(c) THEN 0 ELSE IF arg[1] = 1 THEN rt.w ELSE rf.w]

(* ----------------------------- Impl: assess ----------------------------- *)
RECURSIVE IAssess(_, _, _)
IAssess(g, arg, ch) ==
  LET G == GF[g] IN
  CASE G.kind = "dist" -> [nl |-> NL(G.off, arg, ch), ret |-> ch]
    [] G.kind = "fn" ->
         LET S == G.sites
             F[n \in 0..Len(S)] ==
               IF n = 0 THEN [env |-> <<>>, nl |-> 0]
               ELSE LET st == S[n]
                        p  == F[n - 1]
                        r  == IAssess(st.callee, Eval(st.arg, arg, p.env), ch[st.addr])
                    IN [env |-> Ext(p.env, st.addr, r.ret), nl |-> p.nl + r.nl]
             r == F[Len(S)]
         IN [nl |-> r.nl, ret |-> Eval(G.ret, arg, r.env)]
    [] G.kind = "vmap" ->
         LET rs == [i \in 1..G.n |-> IAssess(G.callee, IF G.bcast THEN arg ELSE arg[i], ch[i])]
         IN [nl |-> SumSeq([i \in 1..G.n |-> rs[i].nl]), ret |-> [i \in 1..G.n |-> rs[i].ret]]
    [] G.kind = "scan" ->
         LET C[i \in 0..G.n] ==
               IF i = 0 THEN [carry |-> arg[1], outs |-> <<>>, nl |-> 0]
               ELSE LET p == C[i - 1]
                        r == IAssess(G.callee, <<p.carry, arg[2][i]>>, ch[i])
                    IN [carry |-> r.ret[1], outs |-> Append(p.outs, r.ret[2]), nl |-> p.nl + r.nl]
             r == C[G.n]
         IN [nl |-> r.nl, ret |-> <<r.carry, r.outs>>]
    [] G.kind = "cond" ->
         LET rt == IAssess(G.t, arg[2], ch)
             rf == IAssess(G.f, arg[2], ch)
         IN IF arg[1] = 1 THEN rt ELSE rf

(* ----------------------------- Impl: update ----------------------------- *)
(* discards are constraint structures (so that a discard can be fed back to update) *)
NoD == NoC
WhereD(chk, d1, d2) == IF chk = 1 THEN d1 ELSE d2      \* Fn.merge(d1, d2, check): leaf-wise jnp.where on equal structures
RECURSIVE IUpd(_, _, _, _)
IUpd(g, tr, c, arg) ==
  LET G == GF[g] IN
  CASE G.kind = "dist" ->
         LET v == IF Has(c) THEN c.v ELSE tr.v
             sc == NL(G.off, arg, v)
         IN [tr |-> [k |-> "d", v |-> v, sc |-> sc, arg |-> arg], w |-> tr.sc - sc, d |-> [k |-> "val", v |-> tr.v]]
    [] G.kind = "fn" ->
         LET S == G.sites
             cm == IF Has(c) THEN c.m ELSE <<>>
             F[n \in 0..Len(S)] ==
               IF n = 0 THEN [env |-> <<>>, sub |-> <<>>, sc |-> 0, w |-> 0, d |-> <<>>]
               ELSE LET st == S[n]
                        p  == F[n - 1]
                        old == tr.sub[st.addr]
                        x  == IF st.addr \in DOMAIN cm THEN cm[st.addr] ELSE ToCons(st.callee, ChoicesOf(old))
                        r  == IUpd(st.callee, old, x, Eval(st.arg, arg, p.env))
                    IN [env |-> Ext(p.env, st.addr, Ret(r.tr)), sub |-> Ext(p.sub, st.addr, r.tr),
                        sc |-> p.sc + Score(r.tr), w |-> p.w + r.w, d |-> Ext(p.d, st.addr, r.d)]
             r == F[Len(S)]
         IN [tr |-> [k |-> "f", sub |-> r.sub, ret |-> Eval(G.ret, arg, r.env), sc |-> r.sc, arg |-> arg], w |-> r.w, d |-> [k |-> "map", m |-> r.d]]
    [] G.kind = "vmap" ->
         LET rs == [i \in 1..G.n |-> IUpd(G.callee, tr.items[i], IF Has(c) THEN c.items[i] ELSE NoC, IF G.bcast THEN arg ELSE arg[i])]
         IN [tr |-> [k |-> "v", items |-> [i \in 1..G.n |-> rs[i].tr], ret |-> [i \in 1..G.n |-> Ret(rs[i].tr)], arg |-> arg],
             w |-> SumSeq([i \in 1..G.n |-> rs[i].w]), d |-> [k |-> "items", items |-> [i \in 1..G.n |-> rs[i].d]]]
    [] G.kind = "scan" ->
         LET C[i \in 0..G.n] ==
               IF i = 0 THEN [carry |-> arg[1], items |-> <<>>, w |-> 0, d |-> <<>>]
               ELSE LET p == C[i - 1]
                        r == IUpd(G.callee, tr.items[i], IF Has(c) THEN c.items[i] ELSE NoC, <<p.carry, arg[2][i]>>)
                    IN [carry |-> Ret(r.tr)[1], items |-> Append(p.items, r.tr), w |-> p.w + r.w, d |-> Append(p.d, r.d)]
             r == C[G.n]
         IN [tr |-> [k |-> "s", items |-> r.items, ret |-> <<r.carry, [i \in 1..G.n |-> Ret(r.items[i])[2]]>>, arg |-> arg],
             w |-> r.w, d |-> [k |-> "items", items |-> r.d]]
    [] G.kind = "cond" ->
         (* after the repair: both branches are updated with (old visible choices overridden by c), the weight is
            the score difference of the visible branches, the discard is selected by the OLD condition           *)
         LET x  == MergeCons(ToCons(G.t, ChoicesOf(tr)), c)
             rt == IUpd(G.t, tr.t, x, arg[2])
             rf == IUpd(G.f, tr.f, x, arg[2])
             new == [k |-> "c", chk |-> arg[1], t |-> rt.tr, f |-> rf.tr, arg |-> arg]
         IN [tr |-> new, w |-> Score(tr) - Score(new), d |-> WhereD(tr.chk, rt.d, rf.d)]

(* ----------------------------- Impl: regenerate ----------------------------- *)
RECURSIVE IRegen(_, _, _, _, _, _)
IRegen(g, tr, s, arg, scr, path) ==
  LET G == GF[g] IN
  CASE G.kind = "dist" ->
         IF LeafHit(s) THEN [tr |-> ISim(g, arg, scr, path), w |-> 0, d |-> [k |-> "val", v |-> tr.v]]
         ELSE LET sc == NL(G.off, arg, tr.v) IN [tr |-> [k |-> "d", v |-> tr.v, sc |-> sc, arg |-> arg], w |-> tr.sc - sc, d |-> NoD]
    [] G.kind = "fn" ->
         LET S == G.sites
             F[n \in 0..Len(S)] ==
               IF n = 0 THEN [env |-> <<>>, sub |-> <<>>, sc |-> 0, w |-> 0, d |-> <<>>]
               ELSE LET st == S[n]
                        p  == F[n - 1]
                        r  == IRegen(st.callee, tr.sub[st.addr], Match(s, st.addr)[2], Eval(st.arg, arg, p.env), scr, Append(path, st.addr))
                    IN [env |-> Ext(p.env, st.addr, Ret(r.tr)), sub |-> Ext(p.sub, st.addr, r.tr),
                        sc |-> p.sc + Score(r.tr), w |-> p.w + r.w, d |-> Ext(p.d, st.addr, r.d)]
             r == F[Len(S)]
         IN [tr |-> [k |-> "f", sub |-> r.sub, ret |-> Eval(G.ret, arg, r.env), sc |-> r.sc, arg |-> arg], w |-> r.w, d |-> [k |-> "map", m |-> r.d]]
    [] G.kind = "vmap" ->
         LET rs == [i \in 1..G.n |-> IRegen(G.callee, tr.items[i], s, IF G.bcast THEN arg ELSE arg[i], scr, Append(path, Ix(i)))]
         IN [tr |-> [k |-> "v", items |-> [i \in 1..G.n |-> rs[i].tr], ret |-> [i \in 1..G.n |-> Ret(rs[i].tr)], arg |-> arg],
             w |-> SumSeq([i \in 1..G.n |-> rs[i].w]), d |-> [k |-> "items", items |-> [i \in 1..G.n |-> rs[i].d]]]
    [] G.kind = "scan" ->
         LET C[i \in 0..G.n] ==
               IF i = 0 THEN [carry |-> arg[1], items |-> <<>>, w |-> 0, d |-> <<>>]
               ELSE LET p == C[i - 1]
                        r == IRegen(G.callee, tr.items[i], s, <<p.carry, arg[2][i]>>, scr, Append(path, Ix(i)))
                    IN [carry |-> Ret(r.tr)[1], items |-> Append(p.items, r.tr), w |-> p.w + r.w, d |-> Append(p.d, r.d)]
             r == C[G.n]
         IN [tr |-> [k |-> "s", items |-> r.items, ret |-> <<r.carry, [i \in 1..G.n |-> Ret(r.items[i])[2]]>>, arg |-> arg],
             w |-> r.w, d |-> [k |-> "items", items |-> r.d]]
    [] G.kind = "cond" ->
         LET rt == IRegen(G.t, tr.t, s, arg[2], scr, path)
             rf == IRegen(G.f, tr.f, s, arg[2], scr, path)
             (* each branch weight is relative to that branch's own old trace; across a flip the old visible score replaces
                the old score of the newly visible branch (after the repair)                                              *)
             oldNew == IF arg[1] = 1 THEN Score(tr.t) ELSE Score(tr.f)
         IN [tr |-> [k |-> "c", chk |-> arg[1], t |-> rt.tr, f |-> rf.tr, arg |-> arg],
             w |-> (IF arg[1] = 1 THEN rt.w ELSE rf.w) + Score(tr) - oldNew, d |-> WhereD(tr.chk, rt.d, rf.d)]

-----------------------------------------------------------------------------
(* ----------------------------- Contract: denotational density ----------------------------- *)
RECURSIVE RV(_, _, _), EnvOf(_, _, _, _), LeafNL(_, _, _, _), CarryAt(_, _, _, _)
EnvOf(g, arg, ch, n) ==
  IF n = 0 THEN <<>>
  ELSE LET env == EnvOf(g, arg, ch, n - 1)
           st  == GF[g].sites[n]
       IN Ext(env, st.addr, RV(st.callee, Eval(st.arg, arg, env), ch[st.addr]))
CarryAt(g, arg, ch, i) ==     \* carry entering step i+1 of a scan
  IF i = 0 THEN arg[1] ELSE RV(GF[g].callee, <<CarryAt(g, arg, ch, i - 1), arg[2][i]>>, ch[i])[1]
RV(g, arg, ch) ==
  LET G == GF[g] IN
  CASE G.kind = "dist" -> ch
    [] G.kind = "fn"   -> Eval(G.ret, arg, EnvOf(g, arg, ch, Len(G.sites)))
    [] G.kind = "vmap" -> [i \in 1..G.n |-> RV(G.callee, IF G.bcast THEN arg ELSE arg[i], ch[i])]
    [] G.kind = "scan" -> <<CarryAt(g, arg, ch, G.n),
                            [i \in 1..G.n |-> RV(G.callee, <<CarryAt(g, arg, ch, i - 1), arg[2][i]>>, ch[i])[2]]>>
    [] G.kind = "cond" -> RV(IF arg[1] = 1 THEN G.t ELSE G.f, arg[2], ch)
(* every (visible) leaf with its value and its conditional NL given the values it depends on *)
LeafNL(g, arg, ch, path) ==
  LET G == GF[g] IN
  CASE G.kind = "dist" -> {[p |-> path, v |-> ch, nl |-> NL(G.off, arg, ch)]}
    [] G.kind = "fn"   -> UNION {LET st == G.sites[n] IN
                                 LeafNL(st.callee, Eval(st.arg, arg, EnvOf(g, arg, ch, n - 1)), ch[st.addr], Append(path, st.addr))
                                 : n \in DOMAIN G.sites}
    [] G.kind = "vmap" -> UNION {LeafNL(G.callee, IF G.bcast THEN arg ELSE arg[i], ch[i], Append(path, Ix(i))) : i \in 1..G.n}
    [] G.kind = "scan" -> UNION {LeafNL(G.callee, <<CarryAt(g, arg, ch, i - 1), arg[2][i]>>, ch[i], Append(path, Ix(i))) : i \in 1..G.n}
    [] G.kind = "cond" -> LeafNL(IF arg[1] = 1 THEN G.t ELSE G.f, arg[2], ch, path)
Density(g, arg, ch) == SumOver(LeafNL(g, arg, ch, <<>>), LAMBDA l : l.nl)
LeafVal(L, p) == (CHOOSE l \in L : l.p = p).v
LeafNl(L, p)  == (CHOOSE l \in L : l.p = p).nl
PathsOf(L) == {l.p : l \in L}

(* the static leaf paths of a program (both branches of a cond have the same addresses) *)
RECURSIVE LeafPaths(_, _)
LeafPaths(g, path) ==
  LET G == GF[g] IN
  CASE G.kind = "dist" -> {path}
    [] G.kind = "fn"   -> UNION {LeafPaths(G.sites[n].callee, Append(path, G.sites[n].addr)) : n \in DOMAIN G.sites}
    [] G.kind \in {"vmap", "scan"} -> UNION {LeafPaths(G.callee, Append(path, Ix(i))) : i \in 1..G.n}
    [] G.kind = "cond" -> LeafPaths(G.t, path)
AddrPath(p) == SelectSeq(p, LAMBDA a : ~IsIx(a))      \* address path without lane / step indices

(* constraint structures over a set P of leaf paths with values val (a function on P) *)
RECURSIVE MkCons(_, _, _, _)
MkCons(g, path, P, val) ==
  LET G == GF[g] IN
  IF ~\E q \in P : IsPrefix(path, q) THEN NoC
  ELSE CASE G.kind = "dist" -> [k |-> "val", v |-> val[path]]
         [] G.kind = "fn"   -> LET D == {G.sites[n].addr : n \in {m \in DOMAIN G.sites : \E q \in P : IsPrefix(Append(path, G.sites[m].addr), q)}}
                               IN [k |-> "map", m |-> [a \in D |-> MkCons(CalleeAt(g, a), Append(path, a), P, val)]]
         [] G.kind \in {"vmap", "scan"} -> [k |-> "items", items |-> [i \in 1..G.n |-> MkCons(G.callee, Append(path, Ix(i)), P, val)]]
         [] G.kind = "cond" -> MkCons(G.t, path, P, val)
(* a constraint of a vectorised sub-call must constrain the same addresses in every lane / step *)
LaneClosed(g, P) == \A q \in P : \A q2 \in LeafPaths(g, <<>>) : AddrPath(q2) = AddrPath(q) => q2 \in P
ConsPathSetsN(g, m) == {P \in SUBSET LeafPaths(g, <<>>) : Cardinality(P) <= m /\ LaneClosed(g, P)}
RECURSIVE ConsLeaves(_, _)
ConsLeaves(c, path) ==       \* set of [p, v] of a constraint / discard-like structure
  CASE c.k = "none"  -> {}
    [] c.k = "val"   -> {[p |-> path, v |-> c.v]}
    [] c.k = "map"   -> UNION {ConsLeaves(c.m[a], Append(path, a)) : a \in DOMAIN c.m}
    [] c.k = "items" -> UNION {ConsLeaves(c.items[i], Append(path, Ix(i))) : i \in DOMAIN c.items}

(* what the harness observes of a trace through the public API *)
RECURSIVE TrLeaves(_, _)
TrLeaves(t, path) ==
  CASE t.k = "d" -> {[p |-> path, v |-> t.v]}
    [] t.k = "f" -> UNION {TrLeaves(t.sub[a], Append(path, a)) : a \in DOMAIN t.sub}
    [] t.k \in {"v", "s"} -> UNION {TrLeaves(t.items[i], Append(path, Ix(i))) : i \in DOMAIN t.items}
    [] t.k = "c" -> TrLeaves(IF t.chk = 1 THEN t.t ELSE t.f, path)
Obs(tr) == [score |-> Score(tr), ret |-> Ret(tr), leaves |-> TrLeaves(tr, <<>>), arg |-> tr.arg]

=============================================================================
