---------------------------- MODULE ResampleTrace ----------------------------
(* Code -> spec for C12: resample() runs with REAL randomness are recorded as (method, integer weights, observed ancestor
   vector, copy / reset / estimate flags) and validated: a systematic ancestor vector must be the one produced by SOME
   offset interval of Resample.tla's Systematic; a categorical one must only use particles of positive weight.            *)
EXTENDS Integers, Sequences, FiniteSets, FiniteSetsExt, TLC, TLCExt, Json, IOUtils

Events == JsonDeserialize(IOEnv.TRACE_FILE)
Sum(f, S) == FoldSet(LAMBDA x, acc : acc + f[x], 0, S)
Sys(W, k) == LET n == Len(W) tot == Sum(W, 1..n) IN
   [j \in 1..n |-> CHOOSE i \in 1..n : /\ 2 * n * Sum(W, 1..i) >= 2 * tot * (j - 1) + 2 * k + 1
                                       /\ \A m \in 1..(i - 1) : 2 * n * Sum(W, 1..m) < 2 * tot * (j - 1) + 2 * k + 1]
Failing(ev) ==
  LET n == Len(ev.W) tot == Sum(ev.W, 1..n) IN
  (IF Len(ev.anc) = n THEN {} ELSE {"particle-count"})
  \cup (IF \A j \in DOMAIN ev.anc : ev.anc[j] \in 1..n /\ ev.W[ev.anc[j]] > 0 THEN {} ELSE {"zero-weight-ancestor"})
  \cup (IF ev.method = "systematic" /\ Len(ev.anc) = n /\ ~\E k \in 0..(tot - 1) : Sys(ev.W, k) = ev.anc THEN {"not-a-systematic-pattern"} ELSE {})
  \cup (IF ev.copied THEN {} ELSE {"faithful-copy"})
  \cup (IF ev.lw_zero THEN {} ELSE {"weights-reset"})
  \cup (IF ev.lml_same THEN {} ELSE {"estimate-preserved"})
VARIABLE l
Init == l = 1
Step == /\ l <= Len(Events)
        /\ LET f == Failing(Events[l]) IN IF f = {} THEN TRUE ELSE PrintT(<<"REJECT", l, f>>)
        /\ l' = l + 1
Spec == Init /\ [][Step]_l
Done == (l = Len(Events) + 1) => PrintT("ALLCHECKED")
=============================================================================
