SPECIFICATION Spec
CONSTANTS ModelName = "rect23"
 T = 1
INVARIANT FilterOK
INVARIANT KalmanOK
INVARIANT PrintHMM
INVARIANT PrintKalman
