SPECIFICATION Spec
CONSTANTS Target = "abY"
 Steps = 2
INVARIANT MalaOK
INVARIANT HmcOK
INVARIANT PrintCase
