------------------------------ MODULE GFITrace ------------------------------
(* Code -> spec direction for C01-C05 / C08(Vmap): events recorded from real executions of the genjax GFI with
   REAL randomness (categorical sites at dyadic logits; eager, jit, vmap-over-keys, histories) are validated
   against the Contract of GFIOps.tla: every recorded trace must have score = Density of its own choices and
   retval = RV, generate/update/regenerate weights must be the Contract's functions of the recorded choices.
   One step per event; a rejected event is printed with the names of the failing clauses and the run continues. *)
EXTENDS GFIOps

Events == JsonDeserialize(IOEnv.TRACE_FILE)

Rng(s) == {s[i] : i \in DOMAIN s}
LeafFn(ls) == [p \in {x.p : x \in Rng(ls)} |-> (CHOOSE x \in Rng(ls) : x.p = p).v]
RECURSIVE ChFrom(_, _, _)
ChFrom(g, path, L) ==
  LET G == GF[g] IN
  CASE G.kind = "dist" -> L[path]
    [] G.kind = "fn"   -> [a \in {G.sites[i].addr : i \in DOMAIN G.sites} |-> ChFrom(CalleeAt(g, a), Append(path, a), L)]
    [] G.kind \in {"vmap", "scan"} -> [i \in 1..G.n |-> ChFrom(G.callee, Append(path, Ix(i)), L)]
    [] G.kind = "cond" -> ChFrom(G.t, path, L)
(* the conditions of all visible Cond nodes, denotationally *)
RECURSIVE CChks(_, _, _, _)
CChks(g, arg, ch, path) ==
  LET G == GF[g] IN
  CASE G.kind = "dist" -> {}
    [] G.kind = "fn"   -> UNION {LET st == G.sites[n] IN
                                 CChks(st.callee, Eval(st.arg, arg, EnvOf(g, arg, ch, n - 1)), ch[st.addr], Append(path, st.addr))
                                 : n \in DOMAIN G.sites}
    [] G.kind = "vmap" -> UNION {CChks(G.callee, IF G.bcast THEN arg ELSE arg[i], ch[i], Append(path, Ix(i))) : i \in 1..G.n}
    [] G.kind = "scan" -> UNION {CChks(G.callee, <<CarryAt(g, arg, ch, i - 1), arg[2][i]>>, ch[i], Append(path, Ix(i))) : i \in 1..G.n}
    [] G.kind = "cond" -> {<<path, arg[1]>>} \cup CChks(IF arg[1] = 1 THEN G.t ELSE G.f, arg[2], ch, path)

SelOf(j) ==   \* JSON selection -> SelOps record (dict d arrives as a record / function already)
  j
Failing(ev) ==
  LET g  == ev.prog
      L  == LeafFn(ev.leaves)
      ch == ChFrom(g, <<>>, L)
      LN == LeafNL(g, ev.arg, ch, <<>>)
      dens == SumOver(LN, LAMBDA x : x.nl)
      base == (IF DOMAIN L = LeafPaths(g, <<>>) THEN {} ELSE {"address-set"})
              \cup (IF ev.score = dens THEN {} ELSE {"score=density"})
              \cup (IF ev.ret = RV(g, ev.arg, ch) THEN {} ELSE {"retval"})
  IN
  IF DOMAIN L # LeafPaths(g, <<>>) THEN {"address-set"} ELSE
  base \cup
  CASE ev.op = "simulate" -> {}
    [] ev.op = "generate" ->
         LET cp == Rng(ev.cpaths)
             cl == LeafFn(ev.cons) IN
         (IF ev.w = -SumOver({x \in LN : x.p \in cp}, LAMBDA x : x.nl) THEN {} ELSE {"generate-weight"})
         \cup (IF \A p \in cp : L[p] = cl[p] THEN {} ELSE {"constraint-honoured"})
    [] ev.op = "assess" -> (IF ev.w = -dens THEN {} ELSE {"assess=density"})
    [] ev.op = "update" ->
         LET L0 == LeafFn(ev.old_leaves)
             ch0 == ChFrom(g, <<>>, L0)
             cl == LeafFn(ev.cons) IN
         (IF ev.w = Density(g, ev.old_arg, ch0) - dens THEN {} ELSE {"update-weight"})
         \cup (IF \A p \in DOMAIN L : L[p] = (IF p \in DOMAIN cl THEN cl[p] ELSE L0[p]) THEN {} ELSE {"update-keeps-rest"})
    [] ev.op = "regenerate" ->
         LET L0 == LeafFn(ev.old_leaves)
             ch0 == ChFrom(g, <<>>, L0)
             LN0 == LeafNL(g, ev.old_arg, ch0, <<>>)
             Sel == {p \in DOMAIN L : Den(ev.sel, AddrPath(p))}
             noswitch == CChks(g, ev.arg, ch, <<>>) = CChks(g, ev.old_arg, ch0, <<>>) IN
         (IF noswitch => \A p \in DOMAIN L \ Sel : L[p] = L0[p] THEN {} ELSE {"unselected-unchanged"})
         \cup (IF noswitch => ev.w = SumOver({x \in LN0 : x.p \notin Sel}, LAMBDA x : x.nl) - SumOver({x \in LN : x.p \notin Sel}, LAMBDA x : x.nl)
               THEN {} ELSE {"regenerate-weight"})
    [] OTHER -> {"unknown-op"}

VARIABLE l
Init == l = 1
Step == /\ l <= Len(Events)
        /\ LET f == Failing(Events[l]) IN IF f = {} THEN TRUE ELSE PrintT(<<"REJECT", l, f>>)
        /\ l' = l + 1
Spec == Init /\ [][Step]_l
Done == (l = Len(Events) + 1) => PrintT("ALLCHECKED")
=============================================================================
