SPECIFICATION Spec
CONSTANTS Level = 2
INVARIANT CollectOldOK
