SPECIFICATION Spec
CONSTANTS ModelName = "dense2"
 T = 2
INVARIANT FilterOK
INVARIANT KalmanOK
INVARIANT PrintHMM
INVARIANT PrintKalman
