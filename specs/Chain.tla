-------------------------------- MODULE Chain --------------------------------
(* C18: chain(kernel)(trace, n_steps, burn_in, thinning, n_chains) returns exactly the burnt-in, thinned iterates.

   The kernel is abstract: applying it to the state reached after j steps gives the state "j+1" and an accept flag
   Acc(j+1) (the harness uses a real, deterministic tracer kernel with the same flags, and random kernels for the
   slice identity).
   Impl     : the loop of inference/mcmc.py - a scan collecting every iterate, then indices arange(burn_in, n, thin)
              (0-based) applied to iterates and accepts, mean / count of the retained flags.
   Contract : the retained states are the iterates after steps burn_in+1, burn_in+1+thin, ... <= n (1-based); equivalently
              the [burn_in::thin] slice of the un-thinned run; accepts are the flags of exactly those steps; rate their
              mean (as a fraction num/den); n_steps their number; with n_chains > 1 every chain carries the same schedule. *)
EXTENDS Naturals, Sequences, SequencesExt, FiniteSets, TLC, TLCExt, Json, IOUtils

CONSTANTS MaxN, MaxThin, MaxChains

Acc(step) == step % 3 # 0                 \* the tracer kernel's accept flag at (1-based) step

(* ---- Impl: one action per scan iteration, then the slicing ---- *)
VARIABLES n, burn, thin, chains, i, all, accs, phase, out
vars == <<n, burn, thin, chains, i, all, accs, phase, out>>

Init == /\ n \in 1..MaxN /\ burn \in 0..(MaxN - 1) /\ burn < n /\ thin \in 1..MaxThin /\ chains \in 1..MaxChains
        /\ i = 0 /\ all = <<>> /\ accs = <<>> /\ phase = "scan" /\ out = [done |-> FALSE]
Step == /\ phase = "scan" /\ i < n
        /\ i' = i + 1 /\ all' = Append(all, i + 1) /\ accs' = Append(accs, Acc(i + 1))
        /\ UNCHANGED <<n, burn, thin, chains, phase, out>>
(* indices = arange(burn, n, thin), 0-based *)
Arange == LET cnt == (n - burn + thin - 1) \div thin IN [j \in 1..cnt |-> burn + (j - 1) * thin]
Slice == /\ phase = "scan" /\ i = n
         /\ LET idx == Arange
                kept == [j \in DOMAIN idx |-> all[idx[j] + 1]]
                ka == [j \in DOMAIN idx |-> accs[idx[j] + 1]]
            IN out' = [done |-> TRUE, kept |-> kept, accepts |-> ka,
                       rate_num |-> Cardinality({j \in DOMAIN ka : ka[j]}), rate_den |-> Len(ka), n_steps |-> Len(kept)]
         /\ phase' = "done" /\ UNCHANGED <<n, burn, thin, chains, i, all, accs>>
Next == Step \/ Slice
Spec == Init /\ [][Next]_vars

(* ---- Contract ---- *)
Rng(s) == {s[j] : j \in DOMAIN s}
Retained == LET S == {s \in 1..n : s >= burn + 1 /\ (s - burn - 1) % thin = 0} IN SetToSortSeq(S, <)
ChainOK == out.done =>
   /\ out.kept = Retained
   /\ out.kept = [j \in 1..Len(out.kept) |-> all[burn + 1 + (j - 1) * thin]]          \* the [burn::thin] slice of the full run
   /\ out.accepts = [j \in DOMAIN out.kept |-> Acc(out.kept[j])]
   /\ out.n_steps = Len(Retained) /\ out.n_steps >= 1
   /\ out.rate_num = Cardinality({s \in Rng(Retained) : Acc(s)}) /\ out.rate_den = Len(Retained)
PrintDone == out.done => PrintT(<<"CASE", n, burn, thin, chains, out.kept, out.accepts, out.rate_num, out.rate_den>>)
=============================================================================
