SPECIFICATION Spec
CONSTANTS M = 2
INVARIANT Unbiased
INVARIANT PrintCase
