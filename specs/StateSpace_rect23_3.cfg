SPECIFICATION Spec
CONSTANTS ModelName = "rect23"
 T = 3
INVARIANT FilterOK
INVARIANT KalmanOK
INVARIANT PrintHMM
INVARIANT PrintKalman
