-------------------------------- MODULE GFI --------------------------------
(* The generative function interface of genjax.core (C01 - C05; the Vmap half of C08; mh of C09).

   Units: all log-probabilities are integers in "ln 2" units, written as NL = -log2 p >= 0.
          score = sum of NL (as Tr.get_score, the negative log density); weights are integers (log2).

   Contract  : LeafNL / Density / RV - the denotational joint density and return value over choice maps,
               and the predicates SimulateOK, GenerateOK, UpdateOK, RegenerateOK, Coherent, ...
   Impl      : ISim / IGen / IAssess / IUpd / IRegen - the five methods of Distribution, Fn (the handlers
               Simulate/Generate/Assess/Update/Regenerate), Vmap, Scan and Cond, transcribed method by
               method from core.py with the accumulators the code has (score, weight, discard, trace_map),
               including stored per-site scores (so a stale score is visible later, C05).
   One action per public GFI call (the linearization point of a sequential library is the call's return);
   every random draw of a call is the action parameter `scr` (a script: leaf path -> value), so each TLC
   transition is one replayable behaviour of the real code.                                           *)
EXTENDS GFIOps

CONSTANTS Progs,      \* programs explored (names in GF)
          MaxOps,     \* history length bound
          OpKinds,    \* subset of {"simulate","generate","update","regenerate","mh"}
          MaxCons,    \* max number of constrained leaves in a generate/update constraint
          UpdArgs,    \* "all" | "same" : new arguments tried by update/regenerate
          SimScripts  \* "all" | "few" : which outcomes DoSimulate explores (few: the 3 constant scripts) - used to
                      \* bound the number of starting traces of multi-operation histories

ConsPathSets(g) == ConsPathSetsN(g, MaxCons)

-----------------------------------------------------------------------------
(* ----------------------------- state machine: one action per GFI call ----------------------------- *)
VARIABLES prog, cur, prev, last, hist, n
vars == <<prog, cur, prev, last, hist, n>>

Scripts(g, P) == [P -> V]
AllLeaves(g) == LeafPaths(g, <<>>)
NewArgs(g, a) == IF UpdArgs = "all" THEN ArgsOf(g) ELSE {a}

(* selections tried by regenerate / mh: built over the program's own address paths *)
AddrPaths(g) == {AddrPath(p) : p \in AllLeaves(g)} \ {<<>>}
SelsFor(g) == {A("all"), A("none")}
              \cup {StrS(p[1]) : p \in AddrPaths(g)}
              \cup {TupS(p) : p \in AddrPaths(g)}
              \cup {NotS(StrS(p[1])) : p \in AddrPaths(g)}
              \cup {NotS(TupS(p)) : p \in {q \in AddrPaths(g) : Len(q) > 1}}
              \cup {OrS(TupS(p), TupS(q)) : p \in {r \in AddrPaths(g) : Len(r) > 1}, q \in {r \in AddrPaths(g) : Len(r) = 1}}
SelectedLeaves(g, s) == {p \in AllLeaves(g) : Den(s, AddrPath(p))}

Init == /\ prog \in Progs /\ cur = NoTrace /\ prev = NoTrace /\ n = 0
        /\ last = [op |-> "init"] /\ hist = <<>>

DoSimulate ==
  /\ "simulate" \in OpKinds /\ cur = NoTrace
  /\ \E a \in ArgsOf(prog) : \E scr \in (IF SimScripts = "all" THEN Scripts(prog, AllLeaves(prog))
                                           ELSE {[p \in AllLeaves(prog) |-> c] : c \in V}) :
       LET tr == ISim(prog, a, scr, <<>>) IN
       /\ cur' = tr /\ prev' = cur
       /\ last' = [op |-> "simulate", arg |-> a, scr |-> scr, drawn |-> AllLeaves(prog), w |-> 0, exp |-> Obs(tr)]
       /\ hist' = Append(hist, last')
  /\ n' = n + 1 /\ UNCHANGED prog

DoGenerate ==
  /\ "generate" \in OpKinds /\ cur = NoTrace
  /\ \E a \in ArgsOf(prog) : \E P \in ConsPathSets(prog) : \E val \in [P -> V] :
     \E scr \in Scripts(prog, AllLeaves(prog) \ P) :
       LET c == MkCons(prog, <<>>, P, val)
           r == IGen(prog, a, c, scr, <<>>) IN
       /\ cur' = r.tr /\ prev' = cur
       /\ last' = [op |-> "generate", arg |-> a, cons |-> c, cpaths |-> P, scr |-> scr, drawn |-> AllLeaves(prog) \ P, w |-> r.w, exp |-> Obs(r.tr)]
       /\ hist' = Append(hist, last')
  /\ n' = n + 1 /\ UNCHANGED prog

DoUpdate ==
  /\ "update" \in OpKinds /\ cur # NoTrace
  /\ \E a \in NewArgs(prog, cur.arg) : \E P \in ConsPathSets(prog) : \E val \in [P -> V] :
       LET c == MkCons(prog, <<>>, P, val)
           r == IUpd(prog, cur, c, a) IN
       /\ cur' = r.tr /\ prev' = cur
       /\ last' = [op |-> "update", arg |-> a, cons |-> c, cpaths |-> P, w |-> r.w, d |-> r.d, drawn |-> {}, exp |-> Obs(r.tr)]
       /\ hist' = Append(hist, last')
  /\ n' = n + 1 /\ UNCHANGED prog

DoRegenerate ==
  /\ "regenerate" \in OpKinds /\ cur # NoTrace
  /\ \E a \in NewArgs(prog, cur.arg) : \E s \in SelsFor(prog) :
     \E scr \in Scripts(prog, SelectedLeaves(prog, s)) :
       LET r == IRegen(prog, cur, s, a, scr, <<>>) IN
       /\ cur' = r.tr /\ prev' = cur
       /\ last' = [op |-> "regenerate", arg |-> a, sel |-> s, scr |-> scr, drawn |-> SelectedLeaves(prog, s), w |-> r.w, d |-> r.d, exp |-> Obs(r.tr)]
       /\ hist' = Append(hist, last')
  /\ n' = n + 1 /\ UNCHANGED prog

(* mh (inference/mcmc.py): regenerate, then accept iff log u < min(0, w); u is scripted as "acc".
   The kernel reads the trace's recorded arguments; the harness first installs the proposal script into them with an
   argument-only update (weight 0, choices unchanged - but a Cond's hidden branch takes over the visible values), which the
   action therefore includes: base = update(cur, no constraints, same model arguments).                                  *)
DoMH ==
  /\ "mh" \in OpKinds /\ cur # NoTrace /\ GF[prog].kind \in {"fn", "cond"}   \* a vectorised top-level trace does not remember its Vmap
  /\ \E s \in SelsFor(prog) : \E scr \in Scripts(prog, SelectedLeaves(prog, s)) : \E acc \in {TRUE, FALSE} :
       LET base == IUpd(prog, cur, NoC, cur.arg).tr
           r == IRegen(prog, base, s, cur.arg, scr, <<>>) IN
       /\ (~acc => r.w < 0)          \* a rejection needs acceptance probability min(1, 2^w) < 1
       /\ cur' = IF acc THEN r.tr ELSE base
       /\ prev' = base
       /\ last' = [op |-> "mh", arg |-> cur.arg, sel |-> s, scr |-> scr, drawn |-> SelectedLeaves(prog, s), w |-> r.w, acc |-> acc,
                   prop |-> r.tr, exp |-> Obs(IF acc THEN r.tr ELSE base), pexp |-> Obs(r.tr)]
       /\ hist' = Append(hist, last')
  /\ n' = n + 1 /\ UNCHANGED prog

(* a jit round trip of the trace object (identity on the abstract state) *)
DoJit ==
  /\ "jit" \in OpKinds /\ cur # NoTrace /\ last.op # "jit"
  /\ cur' = cur /\ prev' = cur
  /\ last' = [op |-> "jit", arg |-> cur.arg, drawn |-> {}, w |-> 0, exp |-> Obs(cur)]
  /\ hist' = Append(hist, last')
  /\ n' = n + 1 /\ UNCHANGED prog

(* indexing / resampling of a vectorised trace: lane j of the new trace is lane anc[j] of the old one (all fields) *)
DoResample ==
  /\ "resample" \in OpKinds /\ cur # NoTrace /\ GF[prog].kind = "vmap"
  /\ \E anc \in [1..GF[prog].n -> 1..GF[prog].n] :
       LET tr == [cur EXCEPT !.items = [j \in 1..GF[prog].n |-> cur.items[anc[j]]],
                             !.ret = [j \in 1..GF[prog].n |-> cur.ret[anc[j]]],
                             !.arg = IF GF[prog].bcast THEN cur.arg ELSE [j \in 1..GF[prog].n |-> cur.arg[anc[j]]]] IN
       /\ cur' = tr /\ prev' = cur
       /\ last' = [op |-> "resample", arg |-> tr.arg, anc |-> anc, drawn |-> {}, w |-> 0, exp |-> Obs(tr)]
       /\ hist' = Append(hist, last')
  /\ n' = n + 1 /\ UNCHANGED prog

Next == n < MaxOps /\ (DoSimulate \/ DoGenerate \/ DoUpdate \/ DoRegenerate \/ DoMH \/ DoJit \/ DoResample)
Spec == Init /\ [][Next]_vars

-----------------------------------------------------------------------------
(* ----------------------------- Contract predicates ----------------------------- *)
CurLeaves == LeafNL(prog, cur.arg, ChoicesOf(cur), <<>>)
PrevLeaves == LeafNL(prog, prev.arg, ChoicesOf(prev), <<>>)

(* C01 / C05: the trace is coherent: score = -log density of its choices under its recorded arguments, retval = program's *)
Coherent == cur # NoTrace =>
   /\ Score(cur) = Density(prog, cur.arg, ChoicesOf(cur))
   /\ Ret(cur) = RV(prog, cur.arg, ChoicesOf(cur))
   /\ IAssess(prog, cur.arg, ChoicesOf(cur)) = [nl |-> Density(prog, cur.arg, ChoicesOf(cur)), ret |-> RV(prog, cur.arg, ChoicesOf(cur))]
(* mass of the draws of the last call: sum of NL of the drawn (visible) leaves under the new trace *)
Mass == SumOver({l \in CurLeaves : l.p \in last.drawn}, LAMBDA l : l.nl)
(* C01: simulate's behaviour has probability 2^-score, and all behaviours from one (program, arg) sum to one *)
SimulateOK == last.op = "simulate" => Mass = Score(cur) /\ cur.arg = last.arg
SimTotalProb ==
  n = 0 => \A a \in ArgsOf(prog) :
     SumOver(Scripts(prog, AllLeaves(prog)), LAMBDA scr : Pow2(2 * Cardinality(AllLeaves(prog)) - Score(ISim(prog, a, scr, <<>>))))
       = Pow2(2 * Cardinality(AllLeaves(prog)))
(* C02 *)
GenerateOK == last.op = "generate" =>
   /\ \A cl \in ConsLeaves(last.cons, <<>>) : LeafVal(CurLeaves, cl.p) = cl.v
   /\ last.w = -SumOver({l \in CurLeaves : l.p \in last.cpaths}, LAMBDA l : l.nl)
   /\ last.w = Mass - Score(cur)
   /\ (last.cpaths = {} => last.w = 0)
   /\ (last.cpaths = AllLeaves(prog) => last.w = -Density(prog, cur.arg, ChoicesOf(cur)))
(* exp(weight) averages to the marginal probability of the constraints:
   sum_scripts 2^(-mass + w) = sum_completions 2^(-Density)   (both scaled by 2^(2 * #leaves))                    *)
GenUnbiased ==
  (n = 0 /\ "generate" \in OpKinds) => \A a \in ArgsOf(prog) : \A P \in ConsPathSets(prog) : \A val \in [P -> V] :
     LET c == MkCons(prog, <<>>, P, val)
         NLv == 2 * Cardinality(AllLeaves(prog))
         lhs == SumOver(Scripts(prog, AllLeaves(prog) \ P),
                       LAMBDA scr : LET r == IGen(prog, a, c, scr, <<>>)
                                        m == SumOver({l \in LeafNL(prog, a, ChoicesOf(r.tr), <<>>) : l.p \notin P}, LAMBDA l : l.nl)
                                    IN Pow2(NLv - m + r.w))
         (* completions: all choice maps that agree with the constraint = traces generated with every script *)
         rhs == SumOver({ChoicesOf(IGen(prog, a, c, scr, <<>>).tr) : scr \in Scripts(prog, AllLeaves(prog) \ P)},
                       LAMBDA ch : Pow2(NLv - Density(prog, a, ch)))
     IN lhs = rhs
(* C03 *)
UpdateOK == last.op = "update" =>
   /\ cur.arg = last.arg
   /\ PathsOf(CurLeaves) = PathsOf(PrevLeaves)
   /\ \A l \in CurLeaves : l.v = IF l.p \in last.cpaths THEN LeafVal(ConsLeaves(last.cons, <<>>), l.p) ELSE LeafVal(PrevLeaves, l.p)
   /\ last.w = Density(prog, prev.arg, ChoicesOf(prev)) - Density(prog, cur.arg, ChoicesOf(cur))
   /\ \A p \in last.cpaths : \E dl \in ConsLeaves(last.d, <<>>) : dl.p = p /\ dl.v = LeafVal(PrevLeaves, p)
   (* round trip: updating back with the discard and the old arguments restores choices and negates the weight *)
   /\ LET back == IUpd(prog, cur, last.d, prev.arg)
      IN ChoicesOf(back.tr) = ChoicesOf(prev) /\ back.w = -last.w
(* C04 *)
RECURSIVE Chks(_, _)
Chks(t, path) == CASE t.k = "d" -> {}
                   [] t.k = "f" -> UNION {Chks(t.sub[a], Append(path, a)) : a \in DOMAIN t.sub}
                   [] t.k \in {"v", "s"} -> UNION {Chks(t.items[i], Append(path, Ix(i))) : i \in DOMAIN t.items}
                   [] t.k = "c" -> {<<path, t.chk>>} \cup Chks(IF t.chk = 1 THEN t.t ELSE t.f, path)
RegenerateOK == last.op \in {"regenerate", "mh"} =>
   LET new == IF last.op = "mh" THEN last.prop ELSE cur
       NewLeaves == LeafNL(prog, new.arg, ChoicesOf(new), <<>>)
       Sel == last.drawn
   IN
   /\ new.arg = last.arg
   /\ Score(new) = Density(prog, new.arg, ChoicesOf(new)) /\ Ret(new) = RV(prog, new.arg, ChoicesOf(new))
   /\ (Chks(new, <<>>) = Chks(prev, <<>>)) =>
        /\ \A l \in NewLeaves : l.p \notin Sel => l.v = LeafVal(PrevLeaves, l.p)
        /\ last.w = SumOver({l \in PrevLeaves : l.p \notin Sel}, LAMBDA l : l.nl) - SumOver({l \in NewLeaves : l.p \notin Sel}, LAMBDA l : l.nl)
        /\ (last.op = "regenerate" => {dl.p : dl \in ConsLeaves(last.d, <<>>)} = Sel
                                       /\ \A dl \in ConsLeaves(last.d, <<>>) : dl.v = LeafVal(PrevLeaves, dl.p))
   /\ (Sel = {} /\ last.arg = prev.arg => last.w = 0 /\ ChoicesOf(new) = ChoicesOf(prev))
   /\ (Sel = AllLeaves(prog) /\ Chks(new, <<>>) = Chks(prev, <<>>) => last.w = 0)
(* C09 (mh): accept => proposed trace, reject => the input trace unchanged *)
MHOK == last.op = "mh" => (IF last.acc THEN cur = last.prop ELSE cur = prev)
(* C09: detailed balance of mh. With proposal = regenerate-from-prior and acceptance min(1, 2^w),
      pi(x) q(x->x') a(x->x') = pi(x') q(x'->x) a(x'->x)
   holds iff the weight is the change of the log-probabilities of the UNSELECTED visible leaves (then w_reverse = -w and
   min(1,2^w) / min(1,2^-w) = 2^w = pi(x') q(x'->x) / (pi(x) q(x->x'))). This must also hold when the move switches the
   branch of a Cond whose own choices are all unselected (observed) and equal in both branch traces: the mixture-indicator move. *)
RECURSIVE Unsynced(_, _)
Unsynced(t, path) == CASE t.k = "d" -> {}
                       [] t.k = "f" -> UNION {Unsynced(t.sub[a], Append(path, a)) : a \in DOMAIN t.sub}
                       [] t.k \in {"v", "s"} -> UNION {Unsynced(t.items[i], Append(path, Ix(i))) : i \in DOMAIN t.items}
                       [] t.k = "c" -> (IF ChoicesOf(t.t) = ChoicesOf(t.f) THEN {} ELSE {path}) \cup Unsynced(IF t.chk = 1 THEN t.t ELSE t.f, path)
Switched(a, b) == {c[1] : c \in (Chks(a, <<>>) \ Chks(b, <<>>)) \cup (Chks(b, <<>>) \ Chks(a, <<>>))}
DetailedBalance == last.op \in {"regenerate", "mh"} =>
   LET new == IF last.op = "mh" THEN last.prop ELSE cur
       NewLeaves == LeafNL(prog, new.arg, ChoicesOf(new), <<>>)
       Sel == last.drawn
       sw == Switched(prev, new)
       clean == /\ \A cp \in sw : (\A p \in Sel : ~IsPrefix(cp, p)) /\ cp \notin Unsynced(prev, <<>>)
   IN (clean /\ PathsOf(NewLeaves) = PathsOf(PrevLeaves)) =>
        /\ \A l \in NewLeaves : l.p \notin Sel => l.v = LeafVal(PrevLeaves, l.p)
        /\ last.w = SumOver({l \in PrevLeaves : l.p \notin Sel}, LAMBDA l : l.nl) - SumOver({l \in NewLeaves : l.p \notin Sel}, LAMBDA l : l.nl)

(* C05: observed addresses that were never selected or re-constrained keep their values; update weights telescope *)
Touched(i) == UNION {IF hist[k].op \in {"update"} THEN hist[k].cpaths ELSE hist[k].drawn : k \in 2..i}
ObservedKept ==
  (n >= 1 /\ hist[1].op = "generate" /\ \A k \in 2..n : hist[k].op # "resample") =>
     \A cl \in ConsLeaves(hist[1].cons, <<>>) : cl.p \notin Touched(n) => LeafVal(CurLeaves, cl.p) = cl.v
Telescoping ==
  \A i \in 2..n : \A j \in i..n :
     (\A k \in i..j : hist[k].op = "update") =>
        SumSeq([k \in 1..(j - i + 1) |-> hist[i + k - 1].w]) = hist[i - 1].exp.score - hist[j].exp.score

(* -simulate mode: print the history of every generated behaviour (parsed by the harness) *)
PrintHist == (n = MaxOps) => PrintT(<<"HIST", prog, hist>>)

(* export: the program table for the harness-side builder (the dumped states carry hist) *)
RECURSIVE Collides(_)
Collides(g) == LET G == GF[g] IN
  CASE G.kind = "dist" -> FALSE
    [] G.kind = "fn" -> (\E i, j \in DOMAIN G.sites : i # j /\ G.sites[i].addr = G.sites[j].addr) \/ \E i \in DOMAIN G.sites : Collides(G.sites[i].callee)
    [] G.kind \in {"vmap", "scan"} -> Collides(G.callee)
    [] G.kind = "cond" -> Collides(G.t) \/ Collides(G.f)
ExportGF == TLCGet("level") >= 0 /\ JsonSerialize(IOEnv.GX_OUT \o "/gf.json", [gf |-> GF, collides |-> [g \in DOMAIN GF |-> Collides(g)]])
=============================================================================
