-------------------------------- MODULE GFI --------------------------------
(* The generative function interface of genjax.core (C01 - C05; the Vmap half of C08; mh of C09).

   Units: all log-probabilities are integers in "ln 2" units, written as NL = -log2 p >= 0.
          score = sum of NL (as Tr.get_score, the negative log density); weights are integers (log2).

   Contract  : LeafNL / Density / RV - the denotational joint density and return value over choice maps,
               and the predicates SimulateOK, GenerateOK, UpdateOK, RegenerateOK, Coherent, ...
   Impl      : ISim / IGen / IAssess / IUpd / IRegen - the five methods of Distribution, Fn (the handlers
               Simulate/Generate/Assess/Update/Regenerate), Vmap, Scan and Cond, transcribed method by
               method from core.py with the accumulators the code has (score, weight, discard, trace_map),
               including stored per-site scores (so a stale score is visible later, C05).
   One action per public GFI call (the linearization point of a sequential library is the call's return);
   every random draw of a call is the action parameter `scr` (a script: leaf path -> value), so each TLC
   transition is one replayable behaviour of the real code.                                           *)
EXTENDS Integers, Sequences, SequencesExt, FiniteSets, FiniteSetsExt, Functions, TLC, TLCExt, Json, IOUtils,
        GFIPrograms, SelOps

CONSTANTS Progs,      \* programs explored (names in GF)
          MaxOps,     \* history length bound
          OpKinds,    \* subset of {"simulate","generate","update","regenerate","mh"}
          MaxCons,    \* max number of constrained leaves in a generate/update constraint
          UpdArgs,    \* "all" | "same" : new arguments tried by update/regenerate
          SimScripts  \* "all" | "few" : which outcomes DoSimulate explores (few: the 3 constant scripts) - used to
                      \* bound the number of starting traces of multi-operation histories

K == 3
V == 0..(K - 1)
NL(off, par, v) == IF v = (par + off) % K THEN 1 ELSE 2
Pow2(n) == 2 ^ n
SumSeq(s) == FoldLeft(LAMBDA a, b : a + b, 0, s)
SumOver(S, f(_)) == FoldSet(LAMBDA x, acc : acc + f(x), 0, S)
Ext(f, k, v) == [x \in DOMAIN f \cup {k} |-> IF x = k THEN v ELSE f[x]]
Ix(i) == ToString(i)
IsIx(a) == a \in {"1", "2", "3", "4"}

RECURSIVE Eval(_, _, _)
Eval(e, arg, env) ==
  CASE e[1] = "arg"   -> arg
    [] e[1] = "val"   -> env[e[2]]
    [] e[1] = "const" -> e[2]
    [] e[1] = "add"   -> (Eval(e[2], arg, env) + Eval(e[3], arg, env)) % K
    [] e[1] = "eq"    -> IF Eval(e[2], arg, env) = Eval(e[3], arg, env) THEN 1 ELSE 0
    [] e[1] = "pair"  -> <<Eval(e[2], arg, env), Eval(e[3], arg, env)>>
    [] e[1] = "seq"   -> <<Eval(e[2], arg, env), Eval(e[3], arg, env)>>
    [] e[1] = "fst"   -> Eval(e[2], arg, env)[1]
    [] e[1] = "snd"   -> Eval(e[2], arg, env)[2]
    [] e[1] = "sum"   -> SumSeq(Eval(e[2], arg, env)) % K

(* argument space of a top-level program: an integer, or <<check, integer>> for a top-level cond ... *)
ArgsOf(g) == IF GF[g].kind = "cond" THEN {<<c, a>> : c \in {0, 1}, a \in V}
             ELSE IF GF[g].kind = "vmap" /\ ~GF[g].bcast THEN {<<a, b>> : a \in V, b \in V}
             ELSE V

-----------------------------------------------------------------------------
(* ----------------------------- traces (Impl data) ----------------------------- *)
NoTrace == [k |-> "none"]
RECURSIVE Score(_), Ret(_), ChoicesOf(_)
Score(t) == CASE t.k = "d" -> t.sc
              [] t.k = "f" -> t.sc
              [] t.k \in {"v", "s"} -> SumSeq([i \in DOMAIN t.items |-> Score(t.items[i])])
              [] t.k = "c" -> IF t.chk = 1 THEN Score(t.t) ELSE Score(t.f)
Ret(t) == CASE t.k = "d" -> t.v
            [] t.k = "c" -> IF t.chk = 1 THEN Ret(t.t) ELSE Ret(t.f)
            [] OTHER -> t.ret
ChoicesOf(t) == CASE t.k = "d" -> t.v
                [] t.k = "f" -> [a \in DOMAIN t.sub |-> ChoicesOf(t.sub[a])]
                [] t.k \in {"v", "s"} -> [i \in DOMAIN t.items |-> ChoicesOf(t.items[i])]
                [] t.k = "c" -> IF t.chk = 1 THEN ChoicesOf(t.t) ELSE ChoicesOf(t.f)

(* constraints: [k |-> "none"] | [k |-> "val", v] | [k |-> "map", m] | [k |-> "items", items] *)
NoC == [k |-> "none"]
Has(c) == c.k # "none"
CalleeAt(g, a) == GF[g].sites[CHOOSE i \in DOMAIN GF[g].sites : GF[g].sites[i].addr = a].callee
RECURSIVE ToCons(_, _)
ToCons(g, ch) ==
  LET G == GF[g] IN
  CASE G.kind = "dist" -> [k |-> "val", v |-> ch]
    [] G.kind = "fn"   -> [k |-> "map", m |-> [a \in DOMAIN ch |-> ToCons(CalleeAt(g, a), ch[a])]]
    [] G.kind \in {"vmap", "scan"} -> [k |-> "items", items |-> [i \in DOMAIN ch |-> ToCons(G.callee, ch[i])]]
    [] G.kind = "cond" -> ToCons(G.t, ch)
(* c2 overrides c1 (Fn.merge(x, x_) without check, x_ takes precedence) *)
RECURSIVE MergeCons(_, _)
MergeCons(c1, c2) ==
  IF ~Has(c2) THEN c1 ELSE IF ~Has(c1) THEN c2
  ELSE CASE c2.k = "val" -> c2
         [] c2.k = "map" -> [k |-> "map", m |-> [a \in DOMAIN c1.m \cup DOMAIN c2.m |->
                               IF a \in DOMAIN c1.m /\ a \in DOMAIN c2.m THEN MergeCons(c1.m[a], c2.m[a])
                               ELSE IF a \in DOMAIN c2.m THEN c2.m[a] ELSE c1.m[a]]]
         [] c2.k = "items" -> [k |-> "items", items |-> [i \in DOMAIN c2.items |-> MergeCons(c1.items[i], c2.items[i])]]

-----------------------------------------------------------------------------
(* ----------------------------- Impl: simulate ----------------------------- *)
RECURSIVE ISim(_, _, _, _)
ISim(g, arg, scr, path) ==
  LET G == GF[g] IN
  CASE G.kind = "dist" ->
         LET v == (scr[path] + G.soff) % K IN [k |-> "d", v |-> v, sc |-> NL(G.off, arg, v), arg |-> arg]
    [] G.kind = "fn" ->
         LET S == G.sites
             F[n \in 0..Len(S)] ==
               IF n = 0 THEN [env |-> <<>>, sub |-> <<>>, sc |-> 0]
               ELSE LET st == S[n]
                        p  == F[n - 1]
                        tr == ISim(st.callee, Eval(st.arg, arg, p.env), scr, Append(path, st.addr))
                    IN [env |-> Ext(p.env, st.addr, Ret(tr)), sub |-> Ext(p.sub, st.addr, tr), sc |-> p.sc + Score(tr)]
             r == F[Len(S)]
         IN [k |-> "f", sub |-> r.sub, ret |-> Eval(G.ret, arg, r.env), sc |-> r.sc, arg |-> arg]
    [] G.kind = "vmap" ->
         LET items == [i \in 1..G.n |-> ISim(G.callee, IF G.bcast THEN arg ELSE arg[i], scr, Append(path, Ix(i)))]
         IN [k |-> "v", items |-> items, ret |-> [i \in 1..G.n |-> Ret(items[i])], arg |-> arg]
    [] G.kind = "scan" ->
         LET C[i \in 0..G.n] ==
               IF i = 0 THEN [carry |-> arg[1], items |-> <<>>]
               ELSE LET p == C[i - 1]
                        tr == ISim(G.callee, <<p.carry, arg[2][i]>>, scr, Append(path, Ix(i)))
                    IN [carry |-> Ret(tr)[1], items |-> Append(p.items, tr)]
             r == C[G.n]
         IN [k |-> "s", items |-> r.items, ret |-> <<r.carry, [i \in 1..G.n |-> Ret(r.items[i])[2]]>>, arg |-> arg]
    [] G.kind = "cond" ->
         [k |-> "c", chk |-> arg[1], t |-> ISim(G.t, arg[2], scr, path), f |-> ISim(G.f, arg[2], scr, path), arg |-> arg]

(* ----------------------------- Impl: generate ----------------------------- *)
RECURSIVE IGen(_, _, _, _, _)
IGen(g, arg, c, scr, path) ==
  LET G == GF[g] IN
  CASE G.kind = "dist" ->
         IF Has(c) THEN [tr |-> [k |-> "d", v |-> c.v, sc |-> NL(G.off, arg, c.v), arg |-> arg], w |-> -NL(G.off, arg, c.v)]
         ELSE [tr |-> ISim(g, arg, scr, path), w |-> 0]
    [] G.kind = "fn" ->
         IF ~Has(c) THEN [tr |-> ISim(g, arg, scr, path), w |-> 0]
         ELSE
         LET S == G.sites
             F[n \in 0..Len(S)] ==
               IF n = 0 THEN [env |-> <<>>, sub |-> <<>>, sc |-> 0, w |-> 0]
               ELSE LET st == S[n]
                        p  == F[n - 1]
                        x  == IF st.addr \in DOMAIN c.m THEN c.m[st.addr] ELSE NoC
                        r  == IGen(st.callee, Eval(st.arg, arg, p.env), x, scr, Append(path, st.addr))
                    IN [env |-> Ext(p.env, st.addr, Ret(r.tr)), sub |-> Ext(p.sub, st.addr, r.tr),
                        sc |-> p.sc + Score(r.tr), w |-> p.w + r.w]
             r == F[Len(S)]
         IN [tr |-> [k |-> "f", sub |-> r.sub, ret |-> Eval(G.ret, arg, r.env), sc |-> r.sc, arg |-> arg], w |-> r.w]
    [] G.kind = "vmap" ->
         LET rs == [i \in 1..G.n |-> IGen(G.callee, IF G.bcast THEN arg ELSE arg[i],
                                          IF Has(c) THEN c.items[i] ELSE NoC, scr, Append(path, Ix(i)))]
         IN [tr |-> [k |-> "v", items |-> [i \in 1..G.n |-> rs[i].tr], ret |-> [i \in 1..G.n |-> Ret(rs[i].tr)], arg |-> arg],
             w |-> SumSeq([i \in 1..G.n |-> rs[i].w])]
    [] G.kind = "scan" ->
         LET C[i \in 0..G.n] ==
               IF i = 0 THEN [carry |-> arg[1], items |-> <<>>, w |-> 0]
               ELSE LET p == C[i - 1]
                        r == IGen(G.callee, <<p.carry, arg[2][i]>>, IF Has(c) THEN c.items[i] ELSE NoC, scr, Append(path, Ix(i)))
                    IN [carry |-> Ret(r.tr)[1], items |-> Append(p.items, r.tr), w |-> p.w + r.w]
             r == C[G.n]
         IN [tr |-> [k |-> "s", items |-> r.items, ret |-> <<r.carry, [i \in 1..G.n |-> Ret(r.items[i])[2]]>>, arg |-> arg], w |-> r.w]
    [] G.kind = "cond" ->
         LET rt == IGen(G.t, arg[2], c, scr, path)
             rf == IGen(G.f, arg[2], c, scr, path)
         IN [tr |-> [k |-> "c", chk |-> arg[1], t |-> rt.tr, f |-> rf.tr, arg |-> arg],
             w |-> IF ~Has(c) THEN 0 ELSE IF arg[1] = 1 THEN rt.w ELSE rf.w]

(* ----------------------------- Impl: assess ----------------------------- *)
RECURSIVE IAssess(_, _, _)
IAssess(g, arg, ch) ==
  LET G == GF[g] IN
  CASE G.kind = "dist" -> [nl |-> NL(G.off, arg, ch), ret |-> ch]
    [] G.kind = "fn" ->
         LET S == G.sites
             F[n \in 0..Len(S)] ==
               IF n = 0 THEN [env |-> <<>>, nl |-> 0]
               ELSE LET st == S[n]
                        p  == F[n - 1]
                        r  == IAssess(st.callee, Eval(st.arg, arg, p.env), ch[st.addr])
                    IN [env |-> Ext(p.env, st.addr, r.ret), nl |-> p.nl + r.nl]
             r == F[Len(S)]
         IN [nl |-> r.nl, ret |-> Eval(G.ret, arg, r.env)]
    [] G.kind = "vmap" ->
         LET rs == [i \in 1..G.n |-> IAssess(G.callee, IF G.bcast THEN arg ELSE arg[i], ch[i])]
         IN [nl |-> SumSeq([i \in 1..G.n |-> rs[i].nl]), ret |-> [i \in 1..G.n |-> rs[i].ret]]
    [] G.kind = "scan" ->
         LET C[i \in 0..G.n] ==
               IF i = 0 THEN [carry |-> arg[1], outs |-> <<>>, nl |-> 0]
               ELSE LET p == C[i - 1]
                        r == IAssess(G.callee, <<p.carry, arg[2][i]>>, ch[i])
                    IN [carry |-> r.ret[1], outs |-> Append(p.outs, r.ret[2]), nl |-> p.nl + r.nl]
             r == C[G.n]
         IN [nl |-> r.nl, ret |-> <<r.carry, r.outs>>]
    [] G.kind = "cond" ->
         LET rt == IAssess(G.t, arg[2], ch)
             rf == IAssess(G.f, arg[2], ch)
         IN IF arg[1] = 1 THEN rt ELSE rf

(* ----------------------------- Impl: update ----------------------------- *)
(* discards are constraint structures (so that a discard can be fed back to update) *)
NoD == NoC
WhereD(chk, d1, d2) == IF chk = 1 THEN d1 ELSE d2      \* Fn.merge(d1, d2, check): leaf-wise jnp.where on equal structures
RECURSIVE IUpd(_, _, _, _)
IUpd(g, tr, c, arg) ==
  LET G == GF[g] IN
  CASE G.kind = "dist" ->
         LET v == IF Has(c) THEN c.v ELSE tr.v
             sc == NL(G.off, arg, v)
         IN [tr |-> [k |-> "d", v |-> v, sc |-> sc, arg |-> arg], w |-> tr.sc - sc, d |-> [k |-> "val", v |-> tr.v]]
    [] G.kind = "fn" ->
         LET S == G.sites
             cm == IF Has(c) THEN c.m ELSE <<>>
             F[n \in 0..Len(S)] ==
               IF n = 0 THEN [env |-> <<>>, sub |-> <<>>, sc |-> 0, w |-> 0, d |-> <<>>]
               ELSE LET st == S[n]
                        p  == F[n - 1]
                        old == tr.sub[st.addr]
                        x  == IF st.addr \in DOMAIN cm THEN cm[st.addr] ELSE ToCons(st.callee, ChoicesOf(old))
                        r  == IUpd(st.callee, old, x, Eval(st.arg, arg, p.env))
                    IN [env |-> Ext(p.env, st.addr, Ret(r.tr)), sub |-> Ext(p.sub, st.addr, r.tr),
                        sc |-> p.sc + Score(r.tr), w |-> p.w + r.w, d |-> Ext(p.d, st.addr, r.d)]
             r == F[Len(S)]
         IN [tr |-> [k |-> "f", sub |-> r.sub, ret |-> Eval(G.ret, arg, r.env), sc |-> r.sc, arg |-> arg], w |-> r.w, d |-> [k |-> "map", m |-> r.d]]
    [] G.kind = "vmap" ->
         LET rs == [i \in 1..G.n |-> IUpd(G.callee, tr.items[i], IF Has(c) THEN c.items[i] ELSE NoC, IF G.bcast THEN arg ELSE arg[i])]
         IN [tr |-> [k |-> "v", items |-> [i \in 1..G.n |-> rs[i].tr], ret |-> [i \in 1..G.n |-> Ret(rs[i].tr)], arg |-> arg],
             w |-> SumSeq([i \in 1..G.n |-> rs[i].w]), d |-> [k |-> "items", items |-> [i \in 1..G.n |-> rs[i].d]]]
    [] G.kind = "scan" ->
         LET C[i \in 0..G.n] ==
               IF i = 0 THEN [carry |-> arg[1], items |-> <<>>, w |-> 0, d |-> <<>>]
               ELSE LET p == C[i - 1]
                        r == IUpd(G.callee, tr.items[i], IF Has(c) THEN c.items[i] ELSE NoC, <<p.carry, arg[2][i]>>)
                    IN [carry |-> Ret(r.tr)[1], items |-> Append(p.items, r.tr), w |-> p.w + r.w, d |-> Append(p.d, r.d)]
             r == C[G.n]
         IN [tr |-> [k |-> "s", items |-> r.items, ret |-> <<r.carry, [i \in 1..G.n |-> Ret(r.items[i])[2]]>>, arg |-> arg],
             w |-> r.w, d |-> [k |-> "items", items |-> r.d]]
    [] G.kind = "cond" ->
         (* after the repair: both branches are updated with (old visible choices overridden by c), the weight is
            the score difference of the visible branches, the discard is selected by the OLD condition           *)
         LET x  == MergeCons(ToCons(G.t, ChoicesOf(tr)), c)
             rt == IUpd(G.t, tr.t, x, arg[2])
             rf == IUpd(G.f, tr.f, x, arg[2])
             new == [k |-> "c", chk |-> arg[1], t |-> rt.tr, f |-> rf.tr, arg |-> arg]
         IN [tr |-> new, w |-> Score(tr) - Score(new), d |-> WhereD(tr.chk, rt.d, rf.d)]

(* ----------------------------- Impl: regenerate ----------------------------- *)
RECURSIVE IRegen(_, _, _, _, _, _)
IRegen(g, tr, s, arg, scr, path) ==
  LET G == GF[g] IN
  CASE G.kind = "dist" ->
         IF LeafHit(s) THEN [tr |-> ISim(g, arg, scr, path), w |-> 0, d |-> [k |-> "val", v |-> tr.v]]
         ELSE LET sc == NL(G.off, arg, tr.v) IN [tr |-> [k |-> "d", v |-> tr.v, sc |-> sc, arg |-> arg], w |-> tr.sc - sc, d |-> NoD]
    [] G.kind = "fn" ->
         LET S == G.sites
             F[n \in 0..Len(S)] ==
               IF n = 0 THEN [env |-> <<>>, sub |-> <<>>, sc |-> 0, w |-> 0, d |-> <<>>]
               ELSE LET st == S[n]
                        p  == F[n - 1]
                        r  == IRegen(st.callee, tr.sub[st.addr], Match(s, st.addr)[2], Eval(st.arg, arg, p.env), scr, Append(path, st.addr))
                    IN [env |-> Ext(p.env, st.addr, Ret(r.tr)), sub |-> Ext(p.sub, st.addr, r.tr),
                        sc |-> p.sc + Score(r.tr), w |-> p.w + r.w, d |-> Ext(p.d, st.addr, r.d)]
             r == F[Len(S)]
         IN [tr |-> [k |-> "f", sub |-> r.sub, ret |-> Eval(G.ret, arg, r.env), sc |-> r.sc, arg |-> arg], w |-> r.w, d |-> [k |-> "map", m |-> r.d]]
    [] G.kind = "vmap" ->
         LET rs == [i \in 1..G.n |-> IRegen(G.callee, tr.items[i], s, IF G.bcast THEN arg ELSE arg[i], scr, Append(path, Ix(i)))]
         IN [tr |-> [k |-> "v", items |-> [i \in 1..G.n |-> rs[i].tr], ret |-> [i \in 1..G.n |-> Ret(rs[i].tr)], arg |-> arg],
             w |-> SumSeq([i \in 1..G.n |-> rs[i].w]), d |-> [k |-> "items", items |-> [i \in 1..G.n |-> rs[i].d]]]
    [] G.kind = "scan" ->
         LET C[i \in 0..G.n] ==
               IF i = 0 THEN [carry |-> arg[1], items |-> <<>>, w |-> 0, d |-> <<>>]
               ELSE LET p == C[i - 1]
                        r == IRegen(G.callee, tr.items[i], s, <<p.carry, arg[2][i]>>, scr, Append(path, Ix(i)))
                    IN [carry |-> Ret(r.tr)[1], items |-> Append(p.items, r.tr), w |-> p.w + r.w, d |-> Append(p.d, r.d)]
             r == C[G.n]
         IN [tr |-> [k |-> "s", items |-> r.items, ret |-> <<r.carry, [i \in 1..G.n |-> Ret(r.items[i])[2]]>>, arg |-> arg],
             w |-> r.w, d |-> [k |-> "items", items |-> r.d]]
    [] G.kind = "cond" ->
         LET rt == IRegen(G.t, tr.t, s, arg[2], scr, path)
             rf == IRegen(G.f, tr.f, s, arg[2], scr, path)
         IN [tr |-> [k |-> "c", chk |-> arg[1], t |-> rt.tr, f |-> rf.tr, arg |-> arg],
             w |-> IF arg[1] = 1 THEN rt.w ELSE rf.w, d |-> WhereD(tr.chk, rt.d, rf.d)]

-----------------------------------------------------------------------------
(* ----------------------------- Contract: denotational density ----------------------------- *)
RECURSIVE RV(_, _, _), EnvOf(_, _, _, _), LeafNL(_, _, _, _), CarryAt(_, _, _, _)
EnvOf(g, arg, ch, n) ==
  IF n = 0 THEN <<>>
  ELSE LET env == EnvOf(g, arg, ch, n - 1)
           st  == GF[g].sites[n]
       IN Ext(env, st.addr, RV(st.callee, Eval(st.arg, arg, env), ch[st.addr]))
CarryAt(g, arg, ch, i) ==     \* carry entering step i+1 of a scan
  IF i = 0 THEN arg[1] ELSE RV(GF[g].callee, <<CarryAt(g, arg, ch, i - 1), arg[2][i]>>, ch[i])[1]
RV(g, arg, ch) ==
  LET G == GF[g] IN
  CASE G.kind = "dist" -> ch
    [] G.kind = "fn"   -> Eval(G.ret, arg, EnvOf(g, arg, ch, Len(G.sites)))
    [] G.kind = "vmap" -> [i \in 1..G.n |-> RV(G.callee, IF G.bcast THEN arg ELSE arg[i], ch[i])]
    [] G.kind = "scan" -> <<CarryAt(g, arg, ch, G.n),
                            [i \in 1..G.n |-> RV(G.callee, <<CarryAt(g, arg, ch, i - 1), arg[2][i]>>, ch[i])[2]]>>
    [] G.kind = "cond" -> RV(IF arg[1] = 1 THEN G.t ELSE G.f, arg[2], ch)
(* every (visible) leaf with its value and its conditional NL given the values it depends on *)
LeafNL(g, arg, ch, path) ==
  LET G == GF[g] IN
  CASE G.kind = "dist" -> {[p |-> path, v |-> ch, nl |-> NL(G.off, arg, ch)]}
    [] G.kind = "fn"   -> UNION {LET st == G.sites[n] IN
                                 LeafNL(st.callee, Eval(st.arg, arg, EnvOf(g, arg, ch, n - 1)), ch[st.addr], Append(path, st.addr))
                                 : n \in DOMAIN G.sites}
    [] G.kind = "vmap" -> UNION {LeafNL(G.callee, IF G.bcast THEN arg ELSE arg[i], ch[i], Append(path, Ix(i))) : i \in 1..G.n}
    [] G.kind = "scan" -> UNION {LeafNL(G.callee, <<CarryAt(g, arg, ch, i - 1), arg[2][i]>>, ch[i], Append(path, Ix(i))) : i \in 1..G.n}
    [] G.kind = "cond" -> LeafNL(IF arg[1] = 1 THEN G.t ELSE G.f, arg[2], ch, path)
Density(g, arg, ch) == SumOver(LeafNL(g, arg, ch, <<>>), LAMBDA l : l.nl)
LeafVal(L, p) == (CHOOSE l \in L : l.p = p).v
LeafNl(L, p)  == (CHOOSE l \in L : l.p = p).nl
PathsOf(L) == {l.p : l \in L}

(* the static leaf paths of a program (both branches of a cond have the same addresses) *)
RECURSIVE LeafPaths(_, _)
LeafPaths(g, path) ==
  LET G == GF[g] IN
  CASE G.kind = "dist" -> {path}
    [] G.kind = "fn"   -> UNION {LeafPaths(G.sites[n].callee, Append(path, G.sites[n].addr)) : n \in DOMAIN G.sites}
    [] G.kind \in {"vmap", "scan"} -> UNION {LeafPaths(G.callee, Append(path, Ix(i))) : i \in 1..G.n}
    [] G.kind = "cond" -> LeafPaths(G.t, path)
AddrPath(p) == SelectSeq(p, LAMBDA a : ~IsIx(a))      \* address path without lane / step indices

(* constraint structures over a set P of leaf paths with values val (a function on P) *)
RECURSIVE MkCons(_, _, _, _)
MkCons(g, path, P, val) ==
  LET G == GF[g] IN
  IF ~\E q \in P : IsPrefix(path, q) THEN NoC
  ELSE CASE G.kind = "dist" -> [k |-> "val", v |-> val[path]]
         [] G.kind = "fn"   -> LET D == {G.sites[n].addr : n \in {m \in DOMAIN G.sites : \E q \in P : IsPrefix(Append(path, G.sites[m].addr), q)}}
                               IN [k |-> "map", m |-> [a \in D |-> MkCons(CalleeAt(g, a), Append(path, a), P, val)]]
         [] G.kind \in {"vmap", "scan"} -> [k |-> "items", items |-> [i \in 1..G.n |-> MkCons(G.callee, Append(path, Ix(i)), P, val)]]
         [] G.kind = "cond" -> MkCons(G.t, path, P, val)
(* a constraint of a vectorised sub-call must constrain the same addresses in every lane / step *)
LaneClosed(g, P) == \A q \in P : \A q2 \in LeafPaths(g, <<>>) : AddrPath(q2) = AddrPath(q) => q2 \in P
ConsPathSets(g) == {P \in SUBSET LeafPaths(g, <<>>) : Cardinality(P) <= MaxCons /\ LaneClosed(g, P)}
RECURSIVE ConsLeaves(_, _)
ConsLeaves(c, path) ==       \* set of [p, v] of a constraint / discard-like structure
  CASE c.k = "none"  -> {}
    [] c.k = "val"   -> {[p |-> path, v |-> c.v]}
    [] c.k = "map"   -> UNION {ConsLeaves(c.m[a], Append(path, a)) : a \in DOMAIN c.m}
    [] c.k = "items" -> UNION {ConsLeaves(c.items[i], Append(path, Ix(i))) : i \in DOMAIN c.items}

(* what the harness observes of a trace through the public API *)
RECURSIVE TrLeaves(_, _)
TrLeaves(t, path) ==
  CASE t.k = "d" -> {[p |-> path, v |-> t.v]}
    [] t.k = "f" -> UNION {TrLeaves(t.sub[a], Append(path, a)) : a \in DOMAIN t.sub}
    [] t.k \in {"v", "s"} -> UNION {TrLeaves(t.items[i], Append(path, Ix(i))) : i \in DOMAIN t.items}
    [] t.k = "c" -> TrLeaves(IF t.chk = 1 THEN t.t ELSE t.f, path)
Obs(tr) == [score |-> Score(tr), ret |-> Ret(tr), leaves |-> TrLeaves(tr, <<>>), arg |-> tr.arg]

-----------------------------------------------------------------------------
(* ----------------------------- state machine: one action per GFI call ----------------------------- *)
VARIABLES prog, cur, prev, last, hist, n
vars == <<prog, cur, prev, last, hist, n>>

Scripts(g, P) == [P -> V]
AllLeaves(g) == LeafPaths(g, <<>>)
NewArgs(g, a) == IF UpdArgs = "all" THEN ArgsOf(g) ELSE {a}

(* selections tried by regenerate / mh: built over the program's own address paths *)
AddrPaths(g) == {AddrPath(p) : p \in AllLeaves(g)} \ {<<>>}
SelsFor(g) == {A("all"), A("none")}
              \cup {StrS(p[1]) : p \in AddrPaths(g)}
              \cup {TupS(p) : p \in AddrPaths(g)}
              \cup {NotS(StrS(p[1])) : p \in AddrPaths(g)}
              \cup {NotS(TupS(p)) : p \in {q \in AddrPaths(g) : Len(q) > 1}}
              \cup {OrS(TupS(p), TupS(q)) : p \in {r \in AddrPaths(g) : Len(r) > 1}, q \in {r \in AddrPaths(g) : Len(r) = 1}}
SelectedLeaves(g, s) == {p \in AllLeaves(g) : Den(s, AddrPath(p))}

Init == /\ prog \in Progs /\ cur = NoTrace /\ prev = NoTrace /\ n = 0
        /\ last = [op |-> "init"] /\ hist = <<>>

DoSimulate ==
  /\ "simulate" \in OpKinds /\ cur = NoTrace
  /\ \E a \in ArgsOf(prog) : \E scr \in (IF SimScripts = "all" THEN Scripts(prog, AllLeaves(prog))
                                           ELSE {[p \in AllLeaves(prog) |-> c] : c \in V}) :
       LET tr == ISim(prog, a, scr, <<>>) IN
       /\ cur' = tr /\ prev' = cur
       /\ last' = [op |-> "simulate", arg |-> a, scr |-> scr, drawn |-> AllLeaves(prog), w |-> 0, exp |-> Obs(tr)]
       /\ hist' = Append(hist, last')
  /\ n' = n + 1 /\ UNCHANGED prog

DoGenerate ==
  /\ "generate" \in OpKinds /\ cur = NoTrace
  /\ \E a \in ArgsOf(prog) : \E P \in ConsPathSets(prog) : \E val \in [P -> V] :
     \E scr \in Scripts(prog, AllLeaves(prog) \ P) :
       LET c == MkCons(prog, <<>>, P, val)
           r == IGen(prog, a, c, scr, <<>>) IN
       /\ cur' = r.tr /\ prev' = cur
       /\ last' = [op |-> "generate", arg |-> a, cons |-> c, cpaths |-> P, scr |-> scr, drawn |-> AllLeaves(prog) \ P, w |-> r.w, exp |-> Obs(r.tr)]
       /\ hist' = Append(hist, last')
  /\ n' = n + 1 /\ UNCHANGED prog

DoUpdate ==
  /\ "update" \in OpKinds /\ cur # NoTrace
  /\ \E a \in NewArgs(prog, cur.arg) : \E P \in ConsPathSets(prog) : \E val \in [P -> V] :
       LET c == MkCons(prog, <<>>, P, val)
           r == IUpd(prog, cur, c, a) IN
       /\ cur' = r.tr /\ prev' = cur
       /\ last' = [op |-> "update", arg |-> a, cons |-> c, cpaths |-> P, w |-> r.w, d |-> r.d, drawn |-> {}, exp |-> Obs(r.tr)]
       /\ hist' = Append(hist, last')
  /\ n' = n + 1 /\ UNCHANGED prog

DoRegenerate ==
  /\ "regenerate" \in OpKinds /\ cur # NoTrace
  /\ \E a \in NewArgs(prog, cur.arg) : \E s \in SelsFor(prog) :
     \E scr \in Scripts(prog, SelectedLeaves(prog, s)) :
       LET r == IRegen(prog, cur, s, a, scr, <<>>) IN
       /\ cur' = r.tr /\ prev' = cur
       /\ last' = [op |-> "regenerate", arg |-> a, sel |-> s, scr |-> scr, drawn |-> SelectedLeaves(prog, s), w |-> r.w, d |-> r.d, exp |-> Obs(r.tr)]
       /\ hist' = Append(hist, last')
  /\ n' = n + 1 /\ UNCHANGED prog

(* mh (inference/mcmc.py): regenerate, then accept iff log u < min(0, w); u is scripted as "acc" *)
DoMH ==
  /\ "mh" \in OpKinds /\ cur # NoTrace /\ GF[prog].kind = "fn"   \* a vectorised top-level trace does not remember its Vmap
  /\ \E s \in SelsFor(prog) : \E scr \in Scripts(prog, SelectedLeaves(prog, s)) : \E acc \in {TRUE, FALSE} :
       LET r == IRegen(prog, cur, s, cur.arg, scr, <<>>) IN
       /\ (~acc => r.w < 0)          \* a rejection needs acceptance probability min(1, 2^w) < 1
       /\ cur' = IF acc THEN r.tr ELSE cur
       /\ prev' = cur
       /\ last' = [op |-> "mh", arg |-> cur.arg, sel |-> s, scr |-> scr, drawn |-> SelectedLeaves(prog, s), w |-> r.w, acc |-> acc,
                   prop |-> r.tr, exp |-> Obs(IF acc THEN r.tr ELSE cur), pexp |-> Obs(r.tr)]
       /\ hist' = Append(hist, last')
  /\ n' = n + 1 /\ UNCHANGED prog

(* a jit round trip of the trace object (identity on the abstract state) *)
DoJit ==
  /\ "jit" \in OpKinds /\ cur # NoTrace /\ last.op # "jit"
  /\ cur' = cur /\ prev' = cur
  /\ last' = [op |-> "jit", arg |-> cur.arg, drawn |-> {}, w |-> 0, exp |-> Obs(cur)]
  /\ hist' = Append(hist, last')
  /\ n' = n + 1 /\ UNCHANGED prog

(* indexing / resampling of a vectorised trace: lane j of the new trace is lane anc[j] of the old one (all fields) *)
DoResample ==
  /\ "resample" \in OpKinds /\ cur # NoTrace /\ GF[prog].kind = "vmap"
  /\ \E anc \in [1..GF[prog].n -> 1..GF[prog].n] :
       LET tr == [cur EXCEPT !.items = [j \in 1..GF[prog].n |-> cur.items[anc[j]]],
                             !.ret = [j \in 1..GF[prog].n |-> cur.ret[anc[j]]],
                             !.arg = IF GF[prog].bcast THEN cur.arg ELSE [j \in 1..GF[prog].n |-> cur.arg[anc[j]]]] IN
       /\ cur' = tr /\ prev' = cur
       /\ last' = [op |-> "resample", arg |-> tr.arg, anc |-> anc, drawn |-> {}, w |-> 0, exp |-> Obs(tr)]
       /\ hist' = Append(hist, last')
  /\ n' = n + 1 /\ UNCHANGED prog

Next == n < MaxOps /\ (DoSimulate \/ DoGenerate \/ DoUpdate \/ DoRegenerate \/ DoMH \/ DoJit \/ DoResample)
Spec == Init /\ [][Next]_vars

-----------------------------------------------------------------------------
(* ----------------------------- Contract predicates ----------------------------- *)
CurLeaves == LeafNL(prog, cur.arg, ChoicesOf(cur), <<>>)
PrevLeaves == LeafNL(prog, prev.arg, ChoicesOf(prev), <<>>)

(* C01 / C05: the trace is coherent: score = -log density of its choices under its recorded arguments, retval = program's *)
Coherent == cur # NoTrace =>
   /\ Score(cur) = Density(prog, cur.arg, ChoicesOf(cur))
   /\ Ret(cur) = RV(prog, cur.arg, ChoicesOf(cur))
   /\ IAssess(prog, cur.arg, ChoicesOf(cur)) = [nl |-> Density(prog, cur.arg, ChoicesOf(cur)), ret |-> RV(prog, cur.arg, ChoicesOf(cur))]
(* mass of the draws of the last call: sum of NL of the drawn (visible) leaves under the new trace *)
Mass == SumOver({l \in CurLeaves : l.p \in last.drawn}, LAMBDA l : l.nl)
(* C01: simulate's behaviour has probability 2^-score, and all behaviours from one (program, arg) sum to one *)
SimulateOK == last.op = "simulate" => Mass = Score(cur) /\ cur.arg = last.arg
SimTotalProb ==
  n = 0 => \A a \in ArgsOf(prog) :
     SumOver(Scripts(prog, AllLeaves(prog)), LAMBDA scr : Pow2(2 * Cardinality(AllLeaves(prog)) - Score(ISim(prog, a, scr, <<>>))))
       = Pow2(2 * Cardinality(AllLeaves(prog)))
(* C02 *)
GenerateOK == last.op = "generate" =>
   /\ \A cl \in ConsLeaves(last.cons, <<>>) : LeafVal(CurLeaves, cl.p) = cl.v
   /\ last.w = -SumOver({l \in CurLeaves : l.p \in last.cpaths}, LAMBDA l : l.nl)
   /\ last.w = Mass - Score(cur)
   /\ (last.cpaths = {} => last.w = 0)
   /\ (last.cpaths = AllLeaves(prog) => last.w = -Density(prog, cur.arg, ChoicesOf(cur)))
(* exp(weight) averages to the marginal probability of the constraints:
   sum_scripts 2^(-mass + w) = sum_completions 2^(-Density)   (both scaled by 2^(2 * #leaves))                    *)
GenUnbiased ==
  (n = 0 /\ "generate" \in OpKinds) => \A a \in ArgsOf(prog) : \A P \in ConsPathSets(prog) : \A val \in [P -> V] :
     LET c == MkCons(prog, <<>>, P, val)
         NLv == 2 * Cardinality(AllLeaves(prog))
         lhs == SumOver(Scripts(prog, AllLeaves(prog) \ P),
                       LAMBDA scr : LET r == IGen(prog, a, c, scr, <<>>)
                                        m == SumOver({l \in LeafNL(prog, a, ChoicesOf(r.tr), <<>>) : l.p \notin P}, LAMBDA l : l.nl)
                                    IN Pow2(NLv - m + r.w))
         (* completions: all choice maps that agree with the constraint = traces generated with every script *)
         rhs == SumOver({ChoicesOf(IGen(prog, a, c, scr, <<>>).tr) : scr \in Scripts(prog, AllLeaves(prog) \ P)},
                       LAMBDA ch : Pow2(NLv - Density(prog, a, ch)))
     IN lhs = rhs
(* C03 *)
UpdateOK == last.op = "update" =>
   /\ cur.arg = last.arg
   /\ PathsOf(CurLeaves) = PathsOf(PrevLeaves)
   /\ \A l \in CurLeaves : l.v = IF l.p \in last.cpaths THEN LeafVal(ConsLeaves(last.cons, <<>>), l.p) ELSE LeafVal(PrevLeaves, l.p)
   /\ last.w = Density(prog, prev.arg, ChoicesOf(prev)) - Density(prog, cur.arg, ChoicesOf(cur))
   /\ \A p \in last.cpaths : \E dl \in ConsLeaves(last.d, <<>>) : dl.p = p /\ dl.v = LeafVal(PrevLeaves, p)
   (* round trip: updating back with the discard and the old arguments restores choices and negates the weight *)
   /\ LET back == IUpd(prog, cur, last.d, prev.arg)
      IN ChoicesOf(back.tr) = ChoicesOf(prev) /\ back.w = -last.w
(* C04 *)
RECURSIVE Chks(_, _)
Chks(t, path) == CASE t.k = "d" -> {}
                   [] t.k = "f" -> UNION {Chks(t.sub[a], Append(path, a)) : a \in DOMAIN t.sub}
                   [] t.k \in {"v", "s"} -> UNION {Chks(t.items[i], Append(path, Ix(i))) : i \in DOMAIN t.items}
                   [] t.k = "c" -> {<<path, t.chk>>} \cup Chks(IF t.chk = 1 THEN t.t ELSE t.f, path)
RegenerateOK == last.op \in {"regenerate", "mh"} =>
   LET new == IF last.op = "mh" THEN last.prop ELSE cur
       NewLeaves == LeafNL(prog, new.arg, ChoicesOf(new), <<>>)
       Sel == last.drawn
   IN
   /\ new.arg = last.arg
   /\ Score(new) = Density(prog, new.arg, ChoicesOf(new)) /\ Ret(new) = RV(prog, new.arg, ChoicesOf(new))
   /\ (Chks(new, <<>>) = Chks(prev, <<>>)) =>
        /\ \A l \in NewLeaves : l.p \notin Sel => l.v = LeafVal(PrevLeaves, l.p)
        /\ last.w = SumOver({l \in PrevLeaves : l.p \notin Sel}, LAMBDA l : l.nl) - SumOver({l \in NewLeaves : l.p \notin Sel}, LAMBDA l : l.nl)
        /\ (last.op = "regenerate" => {dl.p : dl \in ConsLeaves(last.d, <<>>)} = Sel
                                       /\ \A dl \in ConsLeaves(last.d, <<>>) : dl.v = LeafVal(PrevLeaves, dl.p))
   /\ (Sel = {} /\ last.arg = prev.arg => last.w = 0 /\ ChoicesOf(new) = ChoicesOf(prev))
   /\ (Sel = AllLeaves(prog) /\ Chks(new, <<>>) = Chks(prev, <<>>) => last.w = 0)
(* C09 (mh): accept => proposed trace, reject => the input trace unchanged *)
MHOK == last.op = "mh" => (IF last.acc THEN cur = last.prop ELSE cur = prev)

(* C05: observed addresses that were never selected or re-constrained keep their values; update weights telescope *)
Touched(i) == UNION {IF hist[k].op \in {"update"} THEN hist[k].cpaths ELSE hist[k].drawn : k \in 2..i}
ObservedKept ==
  (n >= 1 /\ hist[1].op = "generate" /\ \A k \in 2..n : hist[k].op # "resample") =>
     \A cl \in ConsLeaves(hist[1].cons, <<>>) : cl.p \notin Touched(n) => LeafVal(CurLeaves, cl.p) = cl.v
Telescoping ==
  \A i \in 2..n : \A j \in i..n :
     (\A k \in i..j : hist[k].op = "update") =>
        SumSeq([k \in 1..(j - i + 1) |-> hist[i + k - 1].w]) = hist[i - 1].exp.score - hist[j].exp.score

(* -simulate mode: print the history of every generated behaviour (parsed by the harness) *)
PrintHist == (n = MaxOps) => PrintT(<<"HIST", prog, hist>>)

(* export: the program table for the harness-side builder (the dumped states carry hist) *)
RECURSIVE Collides(_)
Collides(g) == LET G == GF[g] IN
  CASE G.kind = "dist" -> FALSE
    [] G.kind = "fn" -> (\E i, j \in DOMAIN G.sites : i # j /\ G.sites[i].addr = G.sites[j].addr) \/ \E i \in DOMAIN G.sites : Collides(G.sites[i].callee)
    [] G.kind \in {"vmap", "scan"} -> Collides(G.callee)
    [] G.kind = "cond" -> Collides(G.t) \/ Collides(G.f)
ExportGF == TLCGet("level") >= 0 /\ JsonSerialize(IOEnv.GX_OUT \o "/gf.json", [gf |-> GF, collides |-> [g \in DOMAIN GF |-> Collides(g)]])
=============================================================================
