SPECIFICATION Spec
CONSTANTS Target = "vec"
 Steps = 2
INVARIANT MalaOK
INVARIANT HmcOK
INVARIANT PrintCase
