SPECIFICATION Spec
CONSTANTS MaxN = 6
 MaxThin = 3
 MaxChains = 2
INVARIANT ChainOK
INVARIANT PrintDone
