-------------------------------- MODULE MCMC --------------------------------
(* C09 (mala / hmc): the gradient-based kernels of inference/mcmc.py on Gaussian targets, exactly, in rationals.

   Targets (unit scales, so that every normalising constant cancels in the acceptance ratio):
      "xy"  : x ~ N(0,1), y ~ N(x,1), y observed          selected: x                    grad = y - 2x
      "vec" : x ~ N(0, I_2) (one array-valued address), y ~ N(x, I_2) observed          per coordinate as "xy"
      "abY" : a ~ N(0,1), b ~ N(a,1), y ~ N(b,1) observed selected: {a}, {b} or {a, b}  grad_a = b - 2a, grad_b = a - 2b + y
   A state is a function coordinate -> rational; noise / momentum is one independent standard normal PER COORDINATE
   (scripted: a function coordinate -> rational).

   Impl     : Mala / Hmc - the steps of the code: drift (tau^2/2) grad, proposal, forward and backward proposal log
              densities, model weight, log alpha; momentum, L leapfrog steps (half step, full step, gradient, half step),
              energy difference.
   Contract : MHRule     - log alpha = [log pi(x') + log q(x | x')] - [log pi(x) + log q(x' | x)] for the Gaussian proposal
                           q(. | x) = N(x + (tau^2/2) grad log pi(x), tau) per selected coordinate;
              Antisymmetric - log alpha(x -> x') = - log alpha(x' -> x)   (detailed balance with the rule min(1, alpha));
              Involution - leapfrog from (x', -p') returns to (x, -p) (reversible, volume preserving shear maps);
              HmcRule    - log alpha = H(x, p) - H(x', p'),  H = -log pi + |p|^2/2;
              unselected coordinates are untouched.                                                                   *)
EXTENDS Rational, Sequences, FiniteSets, FiniteSetsExt, TLC, TLCExt

CONSTANTS Target, Steps        \* Steps: leapfrog count L

Coords == CASE Target = "xy" -> {"x"} [] Target = "vec" -> {"x1", "x2"} [] Target = "abY" -> {"a", "b"}
SelSets == CASE Target = "abY" -> {{"a"}, {"b"}, {"a", "b"}} [] OTHER -> {Coords}
Ys == {R(1), R(2)}
Vals == {R(0), R(1), Q(0 - 1, 2)}
Noise == {R(0 - 1), R(0), Q(1, 2)}
Taus == {Q(1, 2), R(1)}
Half == Q(1, 2)

(* log pi up to a constant, and its gradient w.r.t. coordinate c; y: the observation (same for both coordinates of "vec") *)
LogPi(x, y) ==
  CASE Target = "xy"  -> RSub(RNeg(RMul(Half, RSq(x["x"]))), RMul(Half, RSq(RSub(y, x["x"]))))
    [] Target = "vec" -> RAdd(RSub(RNeg(RMul(Half, RSq(x["x1"]))), RMul(Half, RSq(RSub(y, x["x1"])))),
                              RSub(RNeg(RMul(Half, RSq(x["x2"]))), RMul(Half, RSq(RSub(y, x["x2"])))))
    [] Target = "abY" -> RSub(RSub(RNeg(RMul(Half, RSq(x["a"]))), RMul(Half, RSq(RSub(x["b"], x["a"])))), RMul(Half, RSq(RSub(y, x["b"]))))
Grad(x, y, c) ==
  CASE Target \in {"xy", "vec"} -> RSub(y, RMul(R(2), x[c]))
    [] c = "a" -> RSub(x["b"], RMul(R(2), x["a"]))
    [] c = "b" -> RAdd(RSub(x["a"], RMul(R(2), x["b"])), y)
SumR(f, S) == FoldSet(LAMBDA c, acc : RAdd(acc, f[c]), R(0), S)
LogN(v, mean, sd) == RNeg(RDiv(RSq(RSub(v, mean)), RMul(R(2), RSq(sd))))          \* Gaussian log density up to its constant

(* ---------------- Impl: mala ---------------- *)
Mala(x, y, S, eps, tau) ==
  LET drift(xx, c) == RMul(RMul(RSq(tau), Half), Grad(xx, y, c))
      xn == [c \in Coords |-> IF c \in S THEN RAdd(RAdd(x[c], drift(x, c)), RMul(tau, eps[c])) ELSE x[c]]
      fwd == SumR([c \in S |-> LogN(xn[c], RAdd(x[c], drift(x, c)), tau)], S)
      bwd == SumR([c \in S |-> LogN(x[c], RAdd(xn[c], drift(xn, c)), tau)], S)
      modelw == RSub(LogPi(xn, y), LogPi(x, y))
  IN [xn |-> xn, la |-> RSub(RAdd(modelw, bwd), fwd)]
(* Contract: the Metropolis-Hastings rule for that proposal, written from the definition *)
LogQ(to, from, y, S, tau) == SumR([c \in S |-> LogN(to[c], RAdd(from[c], RMul(RMul(RSq(tau), Half), Grad(from, y, c))), tau)], S)
MHRule(x, xn, y, S, tau) == RSub(RAdd(LogPi(xn, y), LogQ(x, xn, y, S, tau)), RAdd(LogPi(x, y), LogQ(xn, x, y, S, tau)))
(* the noise that proposes x back from xn *)
BackNoise(x, xn, y, S, tau) == [c \in Coords |-> IF c \in S THEN RDiv(RSub(RSub(x[c], xn[c]), RMul(RMul(RSq(tau), Half), Grad(xn, y, c))), tau) ELSE R(0)]

(* ---------------- Impl: hmc ---------------- *)
RECURSIVE Leap(_, _, _, _, _, _)
Leap(x, p, y, S, e, n) ==
  IF n = 0 THEN [x |-> x, p |-> p]
  ELSE LET p1 == [c \in Coords |-> IF c \in S THEN RAdd(p[c], RMul(RMul(e, Half), Grad(x, y, c))) ELSE p[c]]
           x1 == [c \in Coords |-> IF c \in S THEN RAdd(x[c], RMul(e, p1[c])) ELSE x[c]]
           p2 == [c \in Coords |-> IF c \in S THEN RAdd(p1[c], RMul(RMul(e, Half), Grad(x1, y, c))) ELSE p1[c]]
       IN Leap(x1, p2, y, S, e, n - 1)
Kin(p, S) == RMul(Half, SumR([c \in S |-> RSq(p[c])], S))
Hmc(x, y, S, mom, e) ==
  LET r == Leap(x, mom, y, S, e, Steps)
  IN [xn |-> r.x, pn |-> r.p, la |-> RSub(RSub(LogPi(r.x, y), Kin(r.p, S)), RSub(LogPi(x, y), Kin(mom, S)))]

(* ---------------- state machine: one kernel application ---------------- *)
VARIABLES kern, x, y, S, eps, tau, out
vars == <<kern, x, y, S, eps, tau, out>>
Init == /\ kern \in {"mala", "hmc"} /\ x \in [Coords -> Vals] /\ y \in Ys /\ S \in SelSets
        /\ eps \in [Coords -> Noise] /\ tau \in Taus /\ out = [done |-> FALSE]
Apply == /\ ~out.done
         /\ out' = IF kern = "mala" THEN [done |-> TRUE] @@ Mala(x, y, S, eps, tau) ELSE [done |-> TRUE] @@ Hmc(x, y, S, eps, tau)
         /\ UNCHANGED <<kern, x, y, S, eps, tau>>
Next == Apply
Spec == Init /\ [][Next]_vars

(* ---------------- Contract ---------------- *)
MalaOK == (out.done /\ kern = "mala") =>
   /\ out.la = MHRule(x, out.xn, y, S, tau)
   /\ \A c \in Coords \ S : out.xn[c] = x[c]
   /\ LET back == Mala(out.xn, y, S, BackNoise(x, out.xn, y, S, tau), tau)
      IN back.xn = x /\ back.la = RNeg(out.la)                                     \* antisymmetry => detailed balance
HmcOK == (out.done /\ kern = "hmc") =>
   /\ \A c \in Coords \ S : out.xn[c] = x[c]
   /\ LET back == Leap(out.xn, [c \in Coords |-> RNeg(out.pn[c])], y, S, tau, Steps)
      IN back.x = x /\ \A c \in S : back.p[c] = RNeg(eps[c])                       \* involution
   /\ out.la = RSub(RSub(Kin(eps, S), LogPi(x, y)), RSub(Kin(out.pn, S), LogPi(out.xn, y)))   \* H(x,p) - H(x',p')
PrintCase == out.done => PrintT(<<"CASE", kern, Target, Steps, [c \in Coords |-> x[c]], y, S, [c \in Coords |-> eps[c]], tau,
                                   [c \in Coords |-> out.xn[c]], out.la>>)
=============================================================================
