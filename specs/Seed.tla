-------------------------------- MODULE Seed --------------------------------
(* C06 / C07 (and the seed half of C14): the key discipline of genjax.pjax.Seed.

   Programs are Jaxpr-shaped statement lists (what `stage(f)` hands to the interpreter):
      S            a sample_p site
      V(n)         a sample_p site with sample_shape (n,)          (a modular_vmap'd / repeat site: one key, n lanes)
      C(brs)       cond_p / switch with sampling branches           (one sub-key spent, the branch gets a fresh interpreter)
      N(body, n)   scan_p with a sampling body                      (one sub-key spent, iteration i: fresh interpreter on fold_in(sub, i))
      G(body)      a nested generative-function / python call       (inlined in the Jaxpr: same interpreter)
      O(body)      an equation whose sub-Jaxpr Seed does not interpret (remat / checkpoint, closed_call, while, ...)
   Key terms: Root(r) | L(k) | R(k) | F(k, i) (the halves of jax.random.split and fold_in) | Ctr(c) (the hidden
   process-global counter of unseeded sampling).

   Impl  : Run - eval_jaxpr_seed transcribed equation by equation.
   Contract: Pure (same program, key, branch decisions => same site keys, whatever happened in between),
             NoHidden (no site of a seeded run reads the hidden counter; an uninterpreted construct with a site
             inside raises instead), Distinct (no two sites of one run share (key, lane)), RootsApart.            *)
EXTENDS Naturals, Sequences, SequencesExt, FiniteSets, TLC, TLCExt, Json, IOUtils

CONSTANTS MaxSteps,     \* length of an interleaving (seeded calls and foreign unseeded sampling)
          Level,        \* grammar depth of the program space: 1 | 2
          WithOpaque    \* include O(..) statements

S == [k |-> "S"]
V(n) == [k |-> "V", n |-> n]
C(a, b) == [k |-> "C", brs |-> <<a, b>>]
N(b, n) == [k |-> "N", body |-> b, n |-> n]
G(b) == [k |-> "G", body |-> b]
O(b) == [k |-> "O", body |-> b]
J(b) == [k |-> "J", body |-> b]        \* a custom_jvp call (another equation Seed does not interpret)

Stmts0 == {S, V(2)}
Progs0 == {<<a>> : a \in Stmts0} \cup {<<a, b>> : a \in Stmts0, b \in Stmts0}
Stmts1 == Stmts0 \cup {C(p, q) : p \in Progs0, q \in {<<S>>, <<S, S>>}} \cup {N(p, 2) : p \in Progs0} \cup {G(p) : p \in {<<S>>, <<S, V(2)>>}}
          \cup (IF WithOpaque THEN {O(<<S>>), J(<<S>>), O(<<O(<<S>>)>>), O(<<J(<<S>>)>>), J(<<O(<<S, S>>)>>)} ELSE {})
Progs1 == {<<a>> : a \in Stmts1} \cup {<<a, b>> : a \in Stmts1, b \in Stmts0} \cup {<<a, b>> : a \in Stmts0, b \in Stmts1}
          \cup {<<S, a, S>> : a \in Stmts1}
          \* what follows a scan / a cond must not meet the keys used inside it: two sites, a cond, another scan after one
          \cup {<<N(p, 2), S, S>> : p \in Progs0} \cup {<<C(<<S>>, <<S, S>>), S, S>>, <<G(<<S>>), S, S>>}
          \cup {<<N(<<S>>, 2), C(<<S>>, <<S, S>>)>>, <<N(<<S, S>>, 2), N(<<S>>, 2)>>, <<N(<<S>>, 2), N(<<S, S>>, 2), S>>}
Stmts2 == {C(<<N(<<S>>, 2)>>, <<S>>), N(<<C(<<S>>, <<S, S>>)>>, 2), N(<<N(<<S>>, 2), S>>, 2), N(<<V(2), S>>, 2),
           C(<<C(<<S>>, <<S>>), S>>, <<S>>), G(<<N(<<S>>, 2), S>>)}
Progs2 == Progs1 \cup {<<a>> : a \in Stmts2} \cup {<<S, a>> : a \in Stmts2} \cup {<<a, S>> : a \in Stmts2}
Progs == IF Level = 1 THEN Progs1 ELSE Progs2

Root(r) == [t |-> "root", r |-> r]
L(k) == [t |-> "L", k |-> k]
R(k) == [t |-> "R", k |-> k]
F(k, i) == [t |-> "F", k |-> k, i |-> i]
Ctr(c) == [t |-> "ctr", c |-> c]

(* branch decisions: a function from the (static) position path of every C statement to the branch taken *)
RECURSIVE CondPaths(_, _)
CondPaths(p, path) ==
  UNION {LET s == p[i] here == Append(path, ToString(Len(p) - i + 1)) IN
         CASE s.k = "C" -> {here} \cup CondPaths(s.brs[1], Append(here, "1")) \cup CondPaths(s.brs[2], Append(here, "2"))
           [] s.k = "N" -> UNION {CondPaths(s.body, Append(here, ToString(j))) : j \in 1..s.n}
           [] s.k = "G" -> CondPaths(s.body, Append(here, "g"))
           [] OTHER -> {}
         : i \in DOMAIN p}

RECURSIVE HasSite(_)
HasSite(p) == \E i \in DOMAIN p : p[i].k \in {"S", "V"} \/ (p[i].k \in {"G", "O", "J", "N"} /\ HasSite(p[i].body))
                                  \/ (p[i].k = "C" /\ (HasSite(p[i].brs[1]) \/ HasSite(p[i].brs[2])))

(* Impl: the interpreter. State threaded through a statement list: [key, dec (remaining decisions), sites, ctr, err] *)
RECURSIVE Run(_, _, _)
Run(p, st, path) ==
  IF p = <<>> \/ st.err THEN st
  ELSE
  LET s == Head(p)
      here == Append(path, ToString(Len(p)))       \* position, counted from the end (unique per statement within its list)
      st2 ==
        CASE s.k = "S" -> [st EXCEPT !.key = L(st.key), !.sites = Append(@, [path |-> here, term |-> R(st.key), lane |-> 0])]
          [] s.k = "V" -> [st EXCEPT !.key = L(st.key),
                                     !.sites = @ \o [j \in 1..s.n |-> [path |-> here, term |-> R(st.key), lane |-> j - 1]]]
          [] s.k = "G" -> Run(s.body, st, Append(here, "g"))
          [] s.k = "C" -> LET b == st.dec[here]
                              inner == Run(s.brs[b], [st EXCEPT !.key = R(st.key)], Append(here, ToString(b)))
                          IN [inner EXCEPT !.key = L(st.key)]
          [] s.k = "N" -> LET sub == R(st.key)
                              It[i \in 0..s.n] ==
                                IF i = 0 THEN st
                                ELSE LET r == Run(s.body, [It[i - 1] EXCEPT !.key = F(sub, i - 1)], Append(here, ToString(i))) IN r
                          IN [It[s.n] EXCEPT !.key = L(st.key)]
          [] s.k \in {"O", "J"} ->
               (* after the repair (fix: commit): an uninterpreted equation that still contains a sampling site raises
                  the lowering error instead of binding it (which would draw from the hidden global counter)        *)
               IF HasSite(s.body) THEN [st EXCEPT !.err = TRUE] ELSE st
  IN Run(Tail(p), st2, path)

(* the model of the code BEFORE the repair, kept so that TLC documents the defect (Seed_prefix.cfg expects a violation) *)
RECURSIVE RunOld(_, _, _)
RunOld(p, st, path) ==
  IF p = <<>> THEN st
  ELSE LET s == Head(p) here == Append(path, ToString(Len(p))) IN
       IF s.k \in {"O", "J"} THEN RunOld(Tail(p), [st EXCEPT !.sites = Append(@, [path |-> here, term |-> Ctr(st.ctr + 1), lane |-> 0]), !.ctr = @ + 1], path)
       ELSE IF s.k = "S" THEN RunOld(Tail(p), [st EXCEPT !.key = L(st.key), !.sites = Append(@, [path |-> here, term |-> R(st.key), lane |-> 0])], path)
       ELSE RunOld(Tail(p), st, path)

Start(r, dec, ctr) == [key |-> Root(r), dec |-> dec, sites |-> <<>>, ctr |-> ctr, err |-> FALSE]

-----------------------------------------------------------------------------
VARIABLES prog, counter, calls, n
vars == <<prog, counter, calls, n>>
Roots == {1, 2}
Decs(p) == [CondPaths(p, <<>>) -> 1..2]

Init == prog \in Progs /\ counter = 0 /\ calls = <<>> /\ n = 0
(* foreign activity: an unseeded sample somewhere else bumps the hidden counter *)
Unseeded == /\ n < MaxSteps /\ counter' = counter + 1 /\ n' = n + 1
            /\ calls' = Append(calls, [a |-> "unseeded"]) /\ UNCHANGED prog
SeededCall == /\ n < MaxSteps
              /\ \E r \in Roots : \E dec \in Decs(prog) :
                   LET res == Run(prog, Start(r, dec, counter), <<>>) IN
                   /\ calls' = Append(calls, [a |-> "seeded", r |-> r, dec |-> dec, sites |-> res.sites, err |-> res.err])
                   /\ counter' = res.ctr
              /\ n' = n + 1 /\ UNCHANGED prog
Next == Unseeded \/ SeededCall
Spec == Init /\ [][Next]_vars

SeededCalls == {calls[i] : i \in {j \in DOMAIN calls : calls[j].a = "seeded"}}
(* C06 *)
Pure == \A c1, c2 \in SeededCalls : (c1.r = c2.r /\ c1.dec = c2.dec) => (c1.sites = c2.sites /\ c1.err = c2.err)
NoHidden == \A c \in SeededCalls : \A i \in DOMAIN c.sites : c.sites[i].term.t # "ctr"
RECURSIVE RootOf(_)
RootOf(t) == IF t.t = "root" THEN t.r ELSE IF t.t = "ctr" THEN 0 ELSE RootOf(t.k)
RootsApart == \A c \in SeededCalls : \A i \in DOMAIN c.sites : RootOf(c.sites[i].term) = c.r
(* C07 *)
Distinct == \A c \in SeededCalls : \A i, j \in DOMAIN c.sites :
               i # j => <<c.sites[i].term, c.sites[i].lane>> # <<c.sites[j].term, c.sites[j].lane>>
(* the defect model *)
NoHiddenOld == \A r \in Roots : LET res == RunOld(prog, Start(r, <<>>, counter), <<>>) IN
                  \A i \in DOMAIN res.sites : res.sites[i].term.t # "ctr"

Export == TLCGet("level") >= 0 /\ JsonSerialize(IOEnv.GX_OUT \o "/seed_progs.json", SetToSeq(Progs))
=============================================================================
