SPECIFICATION Spec
CONSTANTS
  SiteKinds = {"enum", "mvd", "penum", "rf"}
  Threaded = TRUE
  MaxT = 1
  MaxF = 1
  Shapes = {"SCS"}
INVARIANT Unbiased
INVARIANT EnumExact
