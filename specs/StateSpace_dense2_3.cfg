SPECIFICATION Spec
CONSTANTS ModelName = "dense2"
 T = 3
INVARIANT FilterOK
INVARIANT KalmanOK
INVARIANT PrintHMM
INVARIANT PrintKalman
