SPECIFICATION Spec
CONSTANTS Level = 2
INVARIANT CollectOK
POSTCONDITION Export
