-------------------------------- MODULE ADEV --------------------------------
(* C11: ADEV value and gradient estimators are unbiased (exact for enumeration).

   Expectation programs: a sequence of sample sites followed by a return expression, over one parameter theta.
     site kinds   "enum"  flip_enum            exact two-point enumeration
                  "mvd"   flip_mvd             measure-valued derivative (phantom branch through the PURE continuation)
                  "rf"    REINFORCE over flip  score function
                  "rep"   normal_reparam       z = mu + sigma * eps, eps scripted                (per-draw pathwise derivative)
                  "nrf"   REINFORCE over normal, value scripted                                  (per-draw rule only)
     probability of a flip site i:  PK[i] in {"t", "half"}:  theta   |   (theta + [previous flip]) / 2
     location / scale of a normal site: mu = theta, sigma = 1 ("rep"); mu = theta, sigma = 1/2 ("nrf")
     return: R = c0 * theta + sum_i ci * v_i * theta + c12 * v_1 * v_2      (v_i: flip as 0/1, or the normal value)
   Impl    : the CPS interpreter of adev/__init__.py - at a site the rest of the program is the pure continuation kpure
             and the dual continuation kdual; every primitive's prim_jvp_estimate transcribed; outcomes are produced
             together with the sequence of draws in EXECUTION order (so that the harness can script them) and their probability.
   Contract: Exact(theta) = dual-number enumeration of all flip sites; sum over outcomes of prob * tangent = exact derivative,
             sum prob * primal = exact value; programs of enumeration sites only: every outcome IS exact.                   *)
EXTENDS Rational, Sequences, SequencesExt, FiniteSets, FiniteSetsExt, TLC, TLCExt, Json, IOUtils

CONSTANTS MaxSites

Half == Q(1, 2)
D(p, t) == [p |-> p, t |-> t]
DAdd(a, b) == D(RAdd(a.p, b.p), RAdd(a.t, b.t))
DSub(a, b) == D(RSub(a.p, b.p), RSub(a.t, b.t))
DMul(a, b) == D(RMul(a.p, b.p), RAdd(RMul(a.t, b.p), RMul(a.p, b.t)))
DC(q) == D(q, R(0))
B01(b) == IF b THEN R(1) ELSE R(0)

FlipKinds == {"enum", "mvd", "rf"}
Kinds == FlipKinds \cup {"rep", "nrf"}
Eps == {R(0 - 1), Half, R(2)}           \* scripted standard-normal noises / deviations
Thetas == {Q(1, 4), Half, Q(3, 4)}
(* programs: [kinds (seq), pk (seq), c (coefficients)] *)
Progs == UNION {{[kinds |-> ks, pk |-> pk, c |-> c] : ks \in [1..n -> Kinds], pk \in [1..n -> {"t", "half"}],
                   c \in {<<R(1), R(2), R(3), R(5)>>, <<R(0), R(1), R(0 - 2), R(4)>>}} : n \in 1..MaxSites}
WellFormed(pg) == /\ pg.pk[1] = "t"
                  /\ \A i \in DOMAIN pg.kinds : (pg.kinds[i] \in {"rep", "nrf"} => pg.pk[i] = "t")
                  /\ \A i \in 2..Len(pg.kinds) : pg.pk[i] = "half" => pg.kinds[i - 1] \in FlipKinds
                  /\ Cardinality({i \in DOMAIN pg.kinds : pg.kinds[i] \in {"rep", "nrf"}}) <= 1

(* the probability parameter of flip site i as a dual, given the values so far *)
PDual(pg, i, vals, th) == IF pg.pk[i] = "t" THEN th ELSE DMul(DC(Half), DAdd(th, DC(vals[i - 1])))
(* return expression as a dual; vals: rational values of the sites (as duals vd) *)
Ret(pg, vd, th) ==
  LET n == Len(pg.kinds)
      lin == FoldLeft(LAMBDA acc, i : DAdd(acc, DMul(DMul(DC(pg.c[i + 1]), vd[i]), th)), DMul(DC(pg.c[1]), th), [i \in 1..n |-> i])
  IN IF n >= 2 THEN DAdd(lin, DMul(DC(pg.c[4]), DMul(vd[1], vd[2]))) ELSE lin

(* ---- Impl: continuations. Outcome = [draws, prob, p (primal), t (tangent)] ; draws: seq of [k, v] in execution order ---- *)
RECURSIVE Kd(_, _, _, _), Kp(_, _, _, _)
Cross(A, B, F(_, _)) == {F(a, b) : a \in A, b \in B}
(* pure continuation from site i: every remaining site is sampled by its impl rule (no ADEV), value only *)
Kp(pg, i, vd, th) ==
  IF i > Len(pg.kinds) THEN {[draws |-> <<>>, prob |-> R(1), p |-> Ret(pg, vd, th).p, t |-> R(0)]}
  ELSE LET k == pg.kinds[i] IN
       IF k \in FlipKinds THEN
          LET pr == PDual(pg, i, [j \in 1..(i - 1) |-> vd[j].p], th).p IN
          UNION {{[draws |-> <<[k |-> "flip", v |-> b]>> \o o.draws, prob |-> RMul(IF b THEN pr ELSE RSub(R(1), pr), o.prob), p |-> o.p, t |-> R(0)]
                  : o \in Kp(pg, i + 1, Append(vd, DC(B01(b))), th)} : b \in BOOLEAN}
       ELSE LET sd == IF k = "rep" THEN R(1) ELSE Half IN
          UNION {{[draws |-> <<[k |-> "normal", v |-> e]>> \o o.draws, prob |-> o.prob, p |-> o.p, t |-> R(0)]
                  : o \in Kp(pg, i + 1, Append(vd, DC(RAdd(th.p, RMul(sd, e)))), th)} : e \in Eps}
(* dual continuation from site i *)
Kd(pg, i, vd, th) ==
  IF i > Len(pg.kinds) THEN LET r == Ret(pg, vd, th) IN {[draws |-> <<>>, prob |-> R(1), p |-> r.p, t |-> r.t]}
  ELSE
  LET k == pg.kinds[i]
      pd == PDual(pg, i, [j \in 1..(i - 1) |-> vd[j].p], th)
      next(b) == Kd(pg, i + 1, Append(vd, DC(B01(b))), th)
  IN
  CASE k = "enum" ->       \* kdual(True) then kdual(False); p * true + (1 - p) * false, differentiated
         Cross(next(TRUE), next(FALSE), LAMBDA oT, oF :
               [draws |-> oT.draws \o oF.draws, prob |-> RMul(oT.prob, oF.prob),
                p |-> RAdd(RMul(pd.p, oT.p), RMul(RSub(R(1), pd.p), oF.p)),
                t |-> RAdd(RAdd(RMul(pd.t, oT.p), RMul(pd.p, oT.t)), RAdd(RNeg(RMul(pd.t, oF.p)), RMul(RSub(R(1), pd.p), oF.t)))])
    [] k = "mvd" ->        \* b ~ flip(p); kdual(b); other = kpure(not b); tangent += sign * (other - primal) * dp
         UNION {Cross(next(b), Kp(pg, i + 1, Append(vd, DC(B01(~b))), th), LAMBDA o, o2 :
               [draws |-> <<[k |-> "flip", v |-> b]>> \o o.draws \o o2.draws,
                prob |-> RMul(IF b THEN pd.p ELSE RSub(R(1), pd.p), RMul(o.prob, o2.prob)),
                p |-> o.p,
                t |-> RAdd(o.t, RMul(RMul(IF b THEN R(0 - 1) ELSE R(1), RSub(o2.p, o.p)), pd.t))]) : b \in BOOLEAN}
    [] k = "rf" ->         \* b ~ flip(p); kdual(b); tangent += primal * d log p(b)
         UNION {{[draws |-> <<[k |-> "flip", v |-> b]>> \o o.draws, prob |-> RMul(IF b THEN pd.p ELSE RSub(R(1), pd.p), o.prob), p |-> o.p,
                  t |-> RAdd(o.t, RMul(o.p, IF b THEN RDiv(pd.t, pd.p) ELSE RNeg(RDiv(pd.t, RSub(R(1), pd.p)))))]
                 : o \in next(b)} : b \in BOOLEAN}
    [] k = "rep" ->        \* z = mu + sigma * eps with mu = theta, sigma = 1: dual (theta.p + eps, theta.t)
         UNION {{[draws |-> <<[k |-> "normal", v |-> e]>> \o o.draws, prob |-> o.prob, p |-> o.p, t |-> o.t]
                 : o \in Kd(pg, i + 1, Append(vd, D(RAdd(th.p, e), th.t)), th)} : e \in Eps}
    [] k = "nrf" ->        \* v ~ N(theta, 1/2), v = theta + e/2 scripted; kdual(v) with zero tangent; tangent += primal * dlogN
         UNION {{LET v == RAdd(th.p, RMul(Half, e)) IN
                 [draws |-> <<[k |-> "normal", v |-> e]>> \o o.draws, prob |-> o.prob, p |-> o.p,
                  t |-> RAdd(o.t, RMul(o.p, RMul(RDiv(RSub(v, th.p), RSq(Half)), th.t)))]
                 : o \in Kd(pg, i + 1, Append(vd, DC(RAdd(th.p, RMul(Half, e)))), th)} : e \in Eps}

(* ---- Contract: exact value / derivative by enumerating every flip site with dual numbers ---- *)
RECURSIVE Exact(_, _, _, _)
Exact(pg, i, vd, th) ==
  IF i > Len(pg.kinds) THEN Ret(pg, vd, th)
  ELSE LET pd == PDual(pg, i, [j \in 1..(i - 1) |-> vd[j].p], th) IN
       DAdd(DMul(pd, Exact(pg, i + 1, Append(vd, DC(R(1))), th)), DMul(DSub(DC(R(1)), pd), Exact(pg, i + 1, Append(vd, DC(R(0))), th)))
SumR(S, f(_)) == FoldSet(LAMBDA o, acc : RAdd(acc, f(o)), R(0), S)

VARIABLES pg, th0, outs
vars == <<pg, th0, outs>>
Init == /\ pg \in {q \in Progs : WellFormed(q)} /\ th0 \in Thetas /\ outs = {}
Run == /\ outs = {} /\ outs' = Kd(pg, 1, <<>>, D(th0, R(1))) /\ UNCHANGED <<pg, th0>>
Next == Run
Spec == Init /\ [][Next]_vars

Discrete == \A i \in DOMAIN pg.kinds : pg.kinds[i] \in FlipKinds
Unbiased == (outs # {} /\ Discrete) =>
   LET ex == Exact(pg, 1, <<>>, D(th0, R(1))) IN
   /\ SumR(outs, LAMBDA o : o.prob) = R(1)
   /\ SumR(outs, LAMBDA o : RMul(o.prob, o.p)) = ex.p
   /\ SumR(outs, LAMBDA o : RMul(o.prob, o.t)) = ex.t
EnumExact == (outs # {} /\ \A i \in DOMAIN pg.kinds : pg.kinds[i] = "enum") =>
   LET ex == Exact(pg, 1, <<>>, D(th0, R(1))) IN \A o \in outs : o.p = ex.p /\ o.t = ex.t
PrintCase == outs # {} => PrintT(<<"CASE", pg, th0, SetToSeq(outs)>>)
=============================================================================
