SPECIFICATION Spec
INVARIANT Done
