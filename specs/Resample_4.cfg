SPECIFICATION Spec
CONSTANTS N = 4
 MaxW = 3
INVARIANT FloorCeil
INVARIANT NeverZero
INVARIANT SystematicUnbiased
INVARIANT CategoricalUnbiased
INVARIANT MoveOK
INVARIANT PrintCase
