------------------------------ MODULE Rational ------------------------------
(* Exact rational arithmetic on pairs <<num, den>> (den > 0, lowest terms). TLC integers are 32 bit and TLC fails loudly on
   overflow, so instances are kept small and products are cross-cancelled before multiplying.                              *)
EXTENDS Integers
Abs(a) == IF a < 0 THEN 0 - a ELSE a
RECURSIVE GCD(_, _)
GCD(a, b) == IF b = 0 THEN a ELSE GCD(b, a % b)
Norm(q) == LET g == GCD(Abs(q[1]), Abs(q[2]))
               s == IF q[2] < 0 THEN 0 - 1 ELSE 1
           IN IF q[1] = 0 THEN <<0, 1>> ELSE <<s * (q[1] \div g), s * (q[2] \div g)>>
R(n) == <<n, 1>>
Q(n, d) == Norm(<<n, d>>)
RNeg(a) == <<0 - a[1], a[2]>>
RMul(a, b) == LET g1 == GCD(Abs(a[1]), b[2]) g2 == GCD(Abs(b[1]), a[2])
                  h1 == IF g1 = 0 THEN 1 ELSE g1 h2 == IF g2 = 0 THEN 1 ELSE g2
              IN Norm(<<(a[1] \div h1) * (b[1] \div h2), (a[2] \div h2) * (b[2] \div h1)>>)
RAdd(a, b) == LET g == GCD(a[2], b[2]) den == (a[2] \div g) * b[2]
              IN Norm(<<a[1] * (den \div a[2]) + b[1] * (den \div b[2]), den>>)
RSub(a, b) == RAdd(a, RNeg(b))
RInv(a) == Norm(<<a[2], a[1]>>)
RDiv(a, b) == RMul(a, RInv(b))
RSq(a) == RMul(a, a)
RLess(a, b) == a[1] * b[2] < b[1] * a[2]
=============================================================================
