SPECIFICATION Spec
CONSTANTS
  Progs = {"f2"}
  MaxOps = 3
  OpKinds = {"simulate", "generate", "update", "regenerate", "mh", "jit"}
  MaxCons = 1
  UpdArgs = "same"
  SimScripts = "few"
INVARIANT Coherent
INVARIANT UpdateOK
INVARIANT RegenerateOK
INVARIANT MHOK
INVARIANT GenerateOK
INVARIANT ObservedKept
INVARIANT Telescoping
