SPECIFICATION Spec
CONSTANTS Progs = {"fn3"}
          MaxOps = 1
          OpKinds = {"simulate", "generate"}
          MaxCons = 4
          UpdArgs = "all"
          SimScripts = "all"
INVARIANT Coherent
INVARIANT SimulateOK
INVARIANT SimTotalProb
INVARIANT GenerateOK
INVARIANT GenUnbiased
POSTCONDITION ExportGF
