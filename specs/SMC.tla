--------------------------------- MODULE SMC ---------------------------------
(* C10: SMC particles are properly weighted; the evidence estimate is unbiased.

   Model (3-valued dyadic state-space model, one step per call - as the code is used by rejuvenation_smc):
        z ~ Trans(prev)   P = 1/2 if z = prev      else 1/4          NL_T(prev, z)
        x ~ Emit(z)       P = 1/2 if x = (z+1) % 3 else 1/4          NL_E(z, x)      (x is always observed)
   Custom proposal for z given the observation: P = 1/2 if z = (x+2) % 3 else 1/4   NL_Q(x, z)
   Units: integers in ln 2 ("NL" = -log2 p); log weights lw are integers (log2), lw = NONE models -inf (never needed here).

   Impl   : one action per SMC move of inference/smc.py on a ParticleCollection
              Init / InitProp (custom proposal), Extend / ExtendProp, Resample (categorical | systematic, from Resample.tla's
              rule), Rejuvenate (mh on z: regenerate-from-prior proposal + accept flag per particle), and the ESS-triggered
              composite step of rejuvenation_smc.
   Contract: ProperWeighting - particle i's log weight = log p(its choices and the observations since the last resampling)
              - log q(its choices);  RejuvenateKeepsWeights;  Unbiased - the mass-weighted sum of
              exp(log_marginal_likelihood()) over ALL behaviours equals the marginal likelihood of the observations, exactly
              (rational arithmetic; accumulated in TLC registers, checked by the POSTCONDITION).                          *)
EXTENDS Integers, Sequences, SequencesExt, FiniteSets, FiniteSetsExt, TLC, TLCExt, Json, IOUtils

CONSTANTS N,          \* particles
          PipeName,   \* which pipeline of Pipes
          ObsName,    \* which observation sequence of ObsSeqs (one observation is consumed by every init / extend move)
          Prev0,      \* state before the first step
          WithU       \* the step model has a second latent u ~ U (independent, dyadic) that NO custom proposal proposes:
                      \* it is always filled in by the model's own proposal, so it must cancel in every weight

Pipes == [ie    |-> <<"init", "extend">>,
          irce  |-> <<"init", "resample_cat", "extend">>,
          irse  |-> <<"init", "resample_sys", "extend">>,
          ije   |-> <<"init", "rejuv", "extend">>,
          ipep  |-> <<"init_prop", "extend_prop">>,
          iprsep |-> <<"init_prop", "resample_sys", "extend_prop">>,
          ierce |-> <<"init", "extend", "resample_cat", "extend">>,
          iersje |-> <<"init", "extend", "resample_sys", "rejuv", "extend">>,
          ijrcj |-> <<"init", "rejuv", "resample_cat", "rejuv">>,
          \* the ESS-triggered resampling step of rejuvenation_smc (resample iff ESS < N div 2; needs N >= 4 to fire)
          ipq   |-> <<"init_prop", "essr">>,
          ipqe  |-> <<"init_prop", "essr", "extend">>,
          ieq   |-> <<"init", "essr", "extend", "essr">>,
          ieeq  |-> <<"init", "extend", "extend", "essr">>]
ObsSeqs == [a |-> <<1, 0, 2>>, b |-> <<2, 2, 1>>, c |-> <<0, 1, 1>>]
Pipeline == Pipes[PipeName]
Obs == ObsSeqs[ObsName]

K == 3
V == 0..(K - 1)
NLT(prev, z) == IF z = prev THEN 1 ELSE 2
NLE(z, x) == IF x = (z + 1) % K THEN 1 ELSE 2
NLQ(x, z) == IF z = (x + 2) % K THEN 1 ELSE 2
NLU(u) == IF u = 0 THEN 1 ELSE 2
UVals == IF WithU THEN V ELSE {0}
Pow2(n) == 2 ^ n
Sum(f, S) == FoldSet(LAMBDA x, acc : acc + f[x], 0, S)
UMass(us) == IF WithU THEN Sum([i \in 1..N |-> NLU(us[i])], 1..N) ELSE 0

(* rationals <<num, den>> *)
RECURSIVE GCD(_, _)
GCD(a, b) == IF b = 0 THEN a ELSE GCD(b, a % b)
Norm(q) == LET g == GCD(q[1], q[2]) IN IF g = 0 THEN <<0, 1>> ELSE <<q[1] \div g, q[2] \div g>>
RMul(a, b) == LET g1 == GCD(a[1], b[2]) g2 == GCD(b[1], a[2])      \* cross-cancel first: TLC integers are 32 bit (it fails loudly on overflow)
                  h1 == IF g1 = 0 THEN 1 ELSE g1 h2 == IF g2 = 0 THEN 1 ELSE g2
              IN Norm(<<(a[1] \div h1) * (b[1] \div h2), (a[2] \div h2) * (b[2] \div h1)>>)
RAdd(a, b) == LET g == GCD(a[2], b[2]) den == (a[2] \div g) * b[2]
              IN Norm(<<a[1] * (den \div a[2]) + b[1] * (den \div b[2]), den>>)

(* particle: [z |-> current latent, prev |-> latent of the previous step (argument of the trace), lw |-> log2 weight (<= 0),
              u |-> 2^(2*steps since resample) * weight  (integer form of the weight), steps |-> emissions since resample] *)
VARIABLES pc, t, tobs, zacc, mass, hist
vars == <<pc, t, tobs, zacc, mass, hist>>

Init == pc = <<>> /\ t = 1 /\ tobs = 1 /\ zacc = <<1, 1>> /\ mass = <<1, 1>> /\ hist = <<>>

Move == Pipeline[t]
Weight(p) == Pow2(0 - p.lw)          \* 1 / weight as an integer: weight = 2^lw
(* mean of the weights as a rational: (1/N) sum 2^lw_i *)
MeanW(parts) == LET m == CHOOSE mm \in 0..40 : \A i \in 1..N : 0 - parts[i].lw <= mm /\ \E j \in 1..N : 0 - parts[j].lw = mm
                IN Norm(<<Sum([i \in 1..N |-> Pow2(m + parts[i].lw)], 1..N), N * Pow2(m)>>)
Zhat == RMul(zacc, MeanW(pc))

(* ---- init: every particle draws z from the prior transition (default) or from the custom proposal ---- *)
DoInit(prop) ==
  /\ pc = <<>> /\ Move = (IF prop THEN "init_prop" ELSE "init")
  /\ \E zs \in [1..N -> V] : \E us \in [1..N -> UVals] :
       LET x == Obs[tobs]
           parts == [i \in 1..N |-> [z |-> zs[i], u |-> us[i], prev |-> Prev0,
                                     lw |-> IF prop THEN 0 - (NLT(Prev0, zs[i]) + NLE(zs[i], x) - NLQ(x, zs[i])) ELSE 0 - NLE(zs[i], x)]]
           m == Sum([i \in 1..N |-> IF prop THEN NLQ(x, zs[i]) ELSE NLT(Prev0, zs[i])], 1..N) + UMass(us)
       IN /\ pc' = parts
          /\ mass' = RMul(mass, <<1, Pow2(m)>>)
          /\ hist' = Append(hist, [move |-> Move, zs |-> zs, us |-> us, obs |-> x, lw |-> [i \in 1..N |-> parts[i].lw]])
  /\ t' = t + 1 /\ tobs' = tobs + 1 /\ UNCHANGED zacc

(* ---- extend: new step from every particle's retval (its z), weight accumulates ---- *)
DoExtend(prop) ==
  /\ pc # <<>> /\ Move = (IF prop THEN "extend_prop" ELSE "extend")
  /\ \E zs \in [1..N -> V] : \E us \in [1..N -> UVals] :
       LET x == Obs[tobs]
           parts == [i \in 1..N |-> [z |-> zs[i], u |-> us[i], prev |-> pc[i].z,
                                     lw |-> pc[i].lw + (IF prop THEN 0 - (NLT(pc[i].z, zs[i]) + NLE(zs[i], x) - NLQ(x, zs[i])) ELSE 0 - NLE(zs[i], x))]]
           m == Sum([i \in 1..N |-> IF prop THEN NLQ(x, zs[i]) ELSE NLT(pc[i].z, zs[i])], 1..N) + UMass(us)
       IN /\ pc' = parts
          /\ mass' = RMul(mass, <<1, Pow2(m)>>)
          /\ hist' = Append(hist, [move |-> Move, zs |-> zs, us |-> us, obs |-> x, lw |-> [i \in 1..N |-> parts[i].lw]])
  /\ t' = t + 1 /\ tobs' = tobs + 1 /\ UNCHANGED zacc

(* ---- resample ---- *)
IntW(parts) == LET m == CHOOSE mm \in 0..40 : \A i \in 1..N : 0 - parts[i].lw <= mm /\ \E j \in 1..N : 0 - parts[j].lw = mm
               IN [i \in 1..N |-> Pow2(m + parts[i].lw)]
SysAnc(W, k) == LET tot == Sum(W, 1..N) IN
   [j \in 1..N |-> CHOOSE i \in 1..N : /\ 2 * N * Sum(W, 1..i) >= 2 * tot * (j - 1) + 2 * k + 1
                                       /\ \A mm \in 1..(i - 1) : 2 * N * Sum(W, 1..mm) < 2 * tot * (j - 1) + 2 * k + 1]
RECURSIVE ProdW(_, _, _)
ProdW(W, a, j) == IF j = 0 THEN 1 ELSE W[a[j]] * ProdW(W, a, j - 1)
Resampled(anc) == [j \in 1..N |-> [pc[anc[j]] EXCEPT !.lw = 0]]
DoResampleCat ==
  /\ pc # <<>> /\ Move = "resample_cat"
  /\ \E anc \in [1..N -> 1..N] :
       LET W == IntW(pc) tot == Sum(W, 1..N) IN
       /\ pc' = Resampled(anc)
       /\ zacc' = RMul(zacc, MeanW(pc))
       /\ mass' = RMul(mass, <<ProdW(W, anc, N), tot ^ N>>)
       /\ hist' = Append(hist, [move |-> Move, anc |-> anc, W |-> W, lw |-> [i \in 1..N |-> 0]])
  /\ t' = t + 1 /\ UNCHANGED tobs
(* the adaptive step of rejuvenation_smc: lax.cond(ess < n_particles // 2, resample, identity) - categorical resampling *)
EssLow(parts) == LET W == IntW(parts)
                     s1 == Sum(W, 1..N)
                     s2 == Sum([i \in 1..N |-> W[i] * W[i]], 1..N)
                 IN s1 * s1 < (N \div 2) * s2
DoEssResample ==
  /\ pc # <<>> /\ Move = "essr"
  /\ IF EssLow(pc)
     THEN \E anc \in [1..N -> 1..N] :
            LET W == IntW(pc) tot == Sum(W, 1..N) IN
            /\ pc' = Resampled(anc)
            /\ zacc' = RMul(zacc, MeanW(pc))
            /\ mass' = RMul(mass, <<ProdW(W, anc, N), tot ^ N>>)
            /\ hist' = Append(hist, [move |-> Move, fired |-> TRUE, anc |-> anc, W |-> W, lw |-> [i \in 1..N |-> 0]])
     ELSE /\ UNCHANGED <<pc, zacc, mass>>
          /\ hist' = Append(hist, [move |-> Move, fired |-> FALSE, anc |-> [i \in 1..N |-> i], W |-> IntW(pc), lw |-> [i \in 1..N |-> pc[i].lw]])
  /\ t' = t + 1 /\ UNCHANGED tobs
DoResampleSys ==
  /\ pc # <<>> /\ Move = "resample_sys"
  /\ LET W == IntW(pc) tot == Sum(W, 1..N) IN
     \E k \in 0..(tot - 1) :
       LET anc == SysAnc(W, k) IN
       /\ pc' = Resampled(anc)
       /\ zacc' = RMul(zacc, MeanW(pc))
       /\ mass' = RMul(mass, <<1, tot>>)
       /\ hist' = Append(hist, [move |-> Move, anc |-> anc, W |-> W, k |-> k, tot |-> tot, lw |-> [i \in 1..N |-> 0]])
  /\ t' = t + 1 /\ UNCHANGED tobs

(* ---- rejuvenate with mh on z: proposal from the prior transition given prev, accepted with min(1, p(x|z')/p(x|z)) ---- *)
DoRejuv ==
  /\ pc # <<>> /\ Move = "rejuv"
  /\ \E zs \in [1..N -> V] : \E acc \in [1..N -> BOOLEAN] :
       LET x == Obs[tobs - 1]
           w == [i \in 1..N |-> NLE(pc[i].z, x) - NLE(zs[i], x)]                   \* log2 acceptance ratio of lane i
           alphaNum == [i \in 1..N |-> IF w[i] >= 0 THEN 1 ELSE 1]
           alphaDen == [i \in 1..N |-> IF w[i] >= 0 THEN 1 ELSE Pow2(0 - w[i])]
       IN /\ \A i \in 1..N : ~acc[i] => w[i] < 0                                   \* a rejection needs alpha < 1
          /\ pc' = [i \in 1..N |-> IF acc[i] THEN [pc[i] EXCEPT !.z = zs[i]] ELSE pc[i]]
          /\ mass' = LET pm == Sum([i \in 1..N |-> NLT(pc[i].prev, zs[i])], 1..N)
                         am == FoldSet(LAMBDA i, q : RMul(q, IF acc[i] THEN <<alphaNum[i], alphaDen[i]>>
                                                                 ELSE <<alphaDen[i] - alphaNum[i], alphaDen[i]>>), <<1, 1>>, 1..N)
                     IN RMul(RMul(mass, <<1, Pow2(pm)>>), am)
          /\ hist' = Append(hist, [move |-> Move, zs |-> zs, acc |-> acc, w |-> w, lw |-> [i \in 1..N |-> pc[i].lw]])
  /\ t' = t + 1 /\ UNCHANGED <<tobs, zacc>>

Next == t <= Len(Pipeline) /\ (DoInit(FALSE) \/ DoInit(TRUE) \/ DoExtend(FALSE) \/ DoExtend(TRUE)
                               \/ DoResampleCat \/ DoResampleSys \/ DoEssResample \/ DoRejuv)
Spec == Init /\ [][Next]_vars

(* ---- Contract ---- *)
(* every log weight is (a function of) the particle's own history since the last resampling: checked move by move *)
RejuvenateKeepsWeights == [][Move = "rejuv" => \A i \in 1..N : pc'[i].lw = pc[i].lw]_vars
WeightsNonPositive == pc # <<>> => \A i \in 1..N : pc[i].lw <= 0
(* exact marginal likelihood of the first n observations (forward algorithm over integer weights, denominator 4^(2n)) *)
RECURSIVE Alpha(_)
Alpha(n) == IF n = 0 THEN [z \in V |-> IF z = Prev0 THEN 1 ELSE 0]
            ELSE LET a == Alpha(n - 1) IN
                 [z \in V |-> Sum([zp \in V |-> a[zp] * Pow2(2 - NLT(zp, z))], V) * Pow2(2 - NLE(z, Obs[n]))]
Evidence(n) == Norm(<<Sum(Alpha(n), V), Pow2(4 * n)>>)
(* accumulate E[Zhat] over all terminal behaviours, and E[Zhat] after every prefix of the pipeline (register t) *)
ASSUME \A i \in 1..12 : TLCSet(100 + i, <<0, 1>>)
Accumulate == (pc # <<>>) => TLCSet(100 + t, RAdd(TLCGet(100 + t), RMul(mass, Zhat)))
NObs(tt) == Cardinality({i \in 1..(tt - 1) : Pipeline[i] \in {"init", "init_prop", "extend", "extend_prop"}})
Unbiased == \A tt \in 2..(Len(Pipeline) + 1) : TLCGet(100 + tt) = Evidence(NObs(tt))
(* estimate-weighted particle averages are unbiased for the unnormalised posterior integrals: for every latent value v,
   E[ Zhat * sum_i wbar_i [z_i = v] ] = p(z_n = v, x_1..n)   (the forward vector), after every move *)
WAvg(v) == LET W == IntW(pc) IN Norm(<<Sum([i \in 1..N |-> IF pc[i].z = v THEN W[i] ELSE 0], 1..N), Sum(W, 1..N)>>)
ASSUME \A i \in 1..12 : \A v \in V : TLCSet(200 + 10 * i + v, <<0, 1>>)
AccumulatePost == (pc # <<>>) => \A v \in V : TLCSet(200 + 10 * t + v, RAdd(TLCGet(200 + 10 * t + v), RMul(RMul(mass, Zhat), WAvg(v))))
PostUnbiased == \A tt \in 2..(Len(Pipeline) + 1) : \A v \in V :
                   TLCGet(200 + 10 * tt + v) = Norm(<<Alpha(NObs(tt))[v], Pow2(4 * NObs(tt))>>)
AllUnbiased == Unbiased /\ PostUnbiased
PrintHist == (t = Len(Pipeline) + 1) => PrintT(<<"BEH", hist, mass, Zhat>>)
=============================================================================
