SPECIFICATION Spec
CONSTANTS Depth = 2
INVARIANT LoweringOK
INVARIANT NeverHidden
POSTCONDITION Export
