SPECIFICATION Spec
CONSTANTS N = 2
  PipeName = "irce"
  ObsName = "a"
  Prev0 = 0
  WithU = FALSE
INVARIANT WeightsNonPositive
INVARIANT Accumulate
PROPERTY RejuvenateKeepsWeights
POSTCONDITION Unbiased
