------------------------------ MODULE ADEVCond ------------------------------
(* C11, control flow: expectation programs with a lax.cond whose branches contain ADEV sample sites, and the
   parallel-enumeration primitives.

   Programs are trees.  A block is a sequence of items followed by a return expression; an item is a sample site or
   a cond whose two branches are blocks (the value of a cond item is the return value of the branch taken).
     site kinds  "enum"  flip_enum             two-point enumeration (two sequential calls of the dual continuation)
                 "penum" flip_enum_parallel    the same sum, the continuation vectorised over the support
                 "pcat"  categorical_enum_parallel over three categories with probabilities (theta/2, theta/2, 1 - theta)
                 "mvd"   flip_mvd              phantom branch through the PURE continuation
                 "rf"    REINFORCE over flip
     probability of a flip site: pk = "t": theta | "half": (theta + [previous flip of the same block]) / 2
     predicate of a cond: "th": theta > 3/8 | "v": the previous item of the block (a flip) came out True
     return of the top block : c0*theta + sum_i ci*v_i*theta + c4 * (sum_i v_i)^2          (NOT affine in any v_i)
     return of a branch block: r0*theta + r1*l_1 + r2*l_1*l_2                               (l_j: values of the branch's own sites)

   Impl     : the CPS interpreter of adev/__init__.py with an explicit continuation stack: one frame per block being
              interpreted.  At a site the remainder of the frame AND of all enclosing frames is the continuation
              (Threaded = TRUE, the repaired interpreter: ADEV.forward_mode hands the enclosing remainder to
              eval_jaxpr_adev, which calls it at the end of every path).  Threaded = FALSE is the interpreter of the
              pinned commit: a branch is interpreted on its own and the enclosing remainder is applied ONCE to the
              estimate the branch returns - g(E[x]) instead of E[g(x)].  ADEVCond_known.cfg checks that TLC refutes
              Unbiased for it (the model is not vacuous).
   Contract : Ex = exact dual-number enumeration of every site; sum over outcomes of prob * (primal, tangent) = Ex;
              a program of enumeration sites only yields exactly Ex on every run.                                      *)
EXTENDS Rational, Sequences, SequencesExt, FiniteSets, FiniteSetsExt, TLC, TLCExt

CONSTANTS SiteKinds,      \* kinds of sites used in the corpus
          Threaded,       \* TRUE: repaired interpreter | FALSE: pinned-commit interpreter
          MaxT, MaxF,     \* number of sites in the True / False branch: 0..MaxT, 0..MaxF
          Shapes          \* subset of {"C", "SC", "CS", "SCS", "CC"}: top-level item sequences (S site, C cond; CC = cond nested in the True branch)

Half == Q(1, 2)
D(p, t) == [p |-> p, t |-> t]
DAdd(a, b) == D(RAdd(a.p, b.p), RAdd(a.t, b.t))
DSub(a, b) == D(RSub(a.p, b.p), RSub(a.t, b.t))
DMul(a, b) == D(RMul(a.p, b.p), RAdd(RMul(a.t, b.p), RMul(a.p, b.t)))
DC(q) == D(q, R(0))

FlipKinds == {"enum", "penum", "mvd", "rf"}
EnumKinds == {"enum", "penum", "pcat"}
Thetas == {Q(1, 4), Half, Q(3, 4)}

(* ---- programs (uniform record shapes so that TLC can compare them) ---- *)
NoBlk == [items |-> <<>>, rk |-> "none", r |-> <<>>]
SiteI(kind, pk) == [k |-> "site", kind |-> kind, pk |-> pk, pred |-> "-", T |-> NoBlk, F |-> NoBlk]
CondI(pred, T, F) == [k |-> "cond", kind |-> "-", pk |-> "-", pred |-> pred, T |-> T, F |-> F]
Br(items, r) == [items |-> items, rk |-> "br", r |-> r]
TopB(items, c) == [items |-> items, rk |-> "top", r |-> c]

(* site sequences of a branch: the first site has pk "t", the second "t" or (after a flip) "half" *)
Site1 == {SiteI(k, "t") : k \in SiteKinds}
Site2(s1) == {SiteI(k, "t") : k \in SiteKinds} \cup
             (IF s1.kind \in FlipKinds THEN {SiteI(k, "half") : k \in SiteKinds \ {"pcat"}} ELSE {})
SiteSeqs(n) == {<<>>} \cup (IF n >= 1 THEN {<<s>> : s \in Site1} ELSE {})
                      \cup (IF n >= 2 THEN UNION {{<<s1, s2>> : s2 \in Site2(s1)} : s1 \in Site1} ELSE {})
RT == <<R(1), R(2), R(3)>>          \* return coefficients of True branches
RF == <<R(0 - 1), R(3), R(2)>>      \* ... of False branches
BrT == {Br(s, RT) : s \in SiteSeqs(MaxT)}
BrF == {Br(s, RF) : s \in SiteSeqs(MaxF)}
Conds(preds) == {CondI(p, t, f) : p \in preds, t \in BrT, f \in BrF}
(* a cond nested in the True branch of a cond (one site on either side at most) *)
InnerConds == {CondI("th", Br(s, RT), Br(u, RF)) : s \in SiteSeqs(1), u \in SiteSeqs(1)}
NestedConds == {CondI("th", Br(<<c>>, <<R(1), R(1), R(0)>>), f) : c \in InnerConds, f \in BrF}
CTop == <<R(1), R(2), R(0 - 1), R(3), R(1)>>
PredsAfter(s) == IF s.kind \in FlipKinds THEN {"th", "v"} ELSE {"th"}
Progs ==
  (IF "C" \in Shapes THEN {TopB(<<c>>, CTop) : c \in Conds({"th"})} ELSE {})
  \cup (IF "SC" \in Shapes THEN UNION {{TopB(<<s, c>>, CTop) : c \in Conds(PredsAfter(s))} : s \in Site1} ELSE {})
  \cup (IF "CS" \in Shapes THEN {TopB(<<c, s>>, CTop) : c \in Conds({"th"}), s \in Site1} ELSE {})
  \cup (IF "SCS" \in Shapes THEN UNION {{TopB(<<s, c, s3>>, CTop) : c \in Conds(PredsAfter(s)), s3 \in Site1} : s \in Site1} ELSE {})
  \cup (IF "CC" \in Shapes THEN {TopB(<<c>>, CTop) : c \in NestedConds} ELSE {})

RECURSIVE KindsOf(_)
KindsOf(blk) == UNION {IF blk.items[i].k = "site" THEN {blk.items[i].kind}
                       ELSE KindsOf(blk.items[i].T) \cup KindsOf(blk.items[i].F) : i \in DOMAIN blk.items}

(* ---- semantics of blocks ---- *)
SumD(vd) == FoldLeft(LAMBDA acc, v : DAdd(acc, v), DC(R(0)), vd)
Ret(blk, vd, th) ==
  IF blk.rk = "top" THEN
    LET lin == FoldLeft(LAMBDA acc, i : DAdd(acc, DMul(DMul(DC(blk.r[i + 1]), vd[i]), th)), DMul(DC(blk.r[1]), th), [i \in 1..Len(vd) |-> i])
        s == SumD(vd)
    IN DAdd(lin, DMul(DC(blk.r[5]), DMul(s, s)))
  ELSE LET a == DMul(DC(blk.r[1]), th)
           b == IF Len(vd) >= 1 THEN DMul(DC(blk.r[2]), vd[1]) ELSE DC(R(0))
           c == IF Len(vd) >= 2 THEN DMul(DC(blk.r[3]), DMul(vd[1], vd[2])) ELSE DC(R(0))
       IN DAdd(a, DAdd(b, c))

(* continuation stack: sequence of frames [blk, i (next item), vd (values of the completed items)] *)
Frame(blk) == [blk |-> blk, i |-> 1, vd |-> <<>>]
TopF(st) == st[Len(st)]
Push(st, blk) == Append(st, Frame(blk))
Pop(st) == SubSeq(st, 1, Len(st) - 1)
Adv(st, v) == [st EXCEPT ![Len(st)] = [@ EXCEPT !.i = @ + 1, !.vd = Append(@, v)]]
AtEnd(st) == TopF(st).i > Len(TopF(st).blk.items)
Item(st) == TopF(st).blk.items[TopF(st).i]
PredHolds(it, fr, th) == IF it.pred = "th" THEN RLess(Q(3, 8), th.p) ELSE fr.vd[Len(fr.vd)].p = R(1)
Taken(st, th) == LET it == Item(st) IN IF PredHolds(it, TopF(st), th) THEN it.T ELSE it.F
PFlip(st, th) == LET fr == TopF(st) IN
                 IF Item(st).pk = "t" THEN th ELSE DMul(DC(Half), DAdd(th, DC(fr.vd[fr.i - 1].p)))
CatP(th) == <<DMul(DC(Half), th), DMul(DC(Half), th), DSub(DC(R(1)), th)>>
B01(b) == IF b THEN R(1) ELSE R(0)
One == [draws |-> <<>>, prob |-> R(1)]

(* ---- Contract: exact enumeration ---- *)
RECURSIVE Ex(_, _)
Ex(st, th) ==
  IF AtEnd(st) THEN LET r == Ret(TopF(st).blk, TopF(st).vd, th) IN
                    IF Len(st) = 1 THEN r ELSE Ex(Adv(Pop(st), r), th)
  ELSE LET it == Item(st) IN
       IF it.k = "cond" THEN Ex(Push(st, Taken(st, th)), th)
       ELSE IF it.kind = "pcat" THEN
            LET cp == CatP(th) IN
            DAdd(DMul(cp[1], Ex(Adv(st, DC(R(0))), th)), DAdd(DMul(cp[2], Ex(Adv(st, DC(R(1))), th)), DMul(cp[3], Ex(Adv(st, DC(R(2))), th))))
       ELSE LET pd == PFlip(st, th) IN
            DAdd(DMul(pd, Ex(Adv(st, DC(R(1))), th)), DMul(DSub(DC(R(1)), pd), Ex(Adv(st, DC(R(0))), th)))

(* ---- Impl: pure and dual continuations.  Outcome = [draws, prob, p, t] ---- *)
RECURSIVE Kd(_, _), Kp(_, _)
Cross(A, B, F(_, _)) == {F(a, b) : a \in A, b \in B}
Kp(st, th) ==
  IF AtEnd(st) THEN LET r == Ret(TopF(st).blk, TopF(st).vd, th) IN
                    IF Len(st) = 1 THEN {[draws |-> <<>>, prob |-> R(1), p |-> r.p, t |-> R(0)]}
                    ELSE Kp(Adv(Pop(st), DC(r.p)), th)
  ELSE LET it == Item(st) IN
       IF it.k = "cond" THEN
          \* pure evaluation binds the cond primitive as it is: the branch's sites are sampled, the remainder follows
          Kp(Push(st, Taken(st, th)), th)
       ELSE IF it.kind = "pcat" THEN
          LET cp == CatP(th) IN
          UNION {{[draws |-> <<[k |-> "cat", v |-> c]>> \o o.draws, prob |-> RMul(cp[c + 1].p, o.prob), p |-> o.p, t |-> R(0)]
                  : o \in Kp(Adv(st, DC(R(c))), th)} : c \in 0..2}
       ELSE LET pr == PFlip(st, th).p IN
          UNION {{[draws |-> <<[k |-> "flip", v |-> b]>> \o o.draws, prob |-> RMul(IF b THEN pr ELSE RSub(R(1), pr), o.prob), p |-> o.p, t |-> R(0)]
                  : o \in Kp(Adv(st, DC(B01(b))), th)} : b \in BOOLEAN}

Kd(st, th) ==
  IF AtEnd(st) THEN LET r == Ret(TopF(st).blk, TopF(st).vd, th) IN
                    IF Len(st) = 1 THEN {[draws |-> <<>>, prob |-> R(1), p |-> r.p, t |-> r.t]}
                    ELSE Kd(Adv(Pop(st), r), th)
  ELSE
  LET it == Item(st) IN
  IF it.k = "cond" THEN
     IF Threaded THEN Kd(Push(st, Taken(st, th)), th)
     ELSE \* pinned commit: the branch alone, then the remainder applied to the estimate it returned
          UNION {{[draws |-> oi.draws \o oo.draws, prob |-> RMul(oi.prob, oo.prob), p |-> oo.p, t |-> oo.t]
                  : oo \in Kd(Adv(st, D(oi.p, oi.t)), th)} : oi \in Kd(<<Frame(Taken(st, th))>>, th)}
  ELSE
  LET k == it.kind
      pd == PFlip(st, th)
      next(b) == Kd(Adv(st, DC(B01(b))), th)
  IN
  CASE k \in {"enum", "penum"} ->
         Cross(next(TRUE), next(FALSE), LAMBDA oT, oF :
               [draws |-> oT.draws \o oF.draws, prob |-> RMul(oT.prob, oF.prob),
                p |-> RAdd(RMul(pd.p, oT.p), RMul(RSub(R(1), pd.p), oF.p)),
                t |-> RAdd(RAdd(RMul(pd.t, oT.p), RMul(pd.p, oT.t)), RAdd(RNeg(RMul(pd.t, oF.p)), RMul(RSub(R(1), pd.p), oF.t)))])
    [] k = "pcat" ->
         LET cp == CatP(th)
             n0 == Kd(Adv(st, DC(R(0))), th)
             n1 == Kd(Adv(st, DC(R(1))), th)
             n2 == Kd(Adv(st, DC(R(2))), th)
         IN UNION {Cross(n0, n1, LAMBDA o0, o1 :
               LET e == DAdd(DMul(cp[1], D(o0.p, o0.t)), DAdd(DMul(cp[2], D(o1.p, o1.t)), DMul(cp[3], D(o2.p, o2.t))))
               IN [draws |-> o0.draws \o o1.draws \o o2.draws, prob |-> RMul(o0.prob, RMul(o1.prob, o2.prob)), p |-> e.p, t |-> e.t]) : o2 \in n2}
    [] k = "mvd" ->
         UNION {Cross(next(b), Kp(Adv(st, DC(B01(~b))), th), LAMBDA o, o2 :
               [draws |-> <<[k |-> "flip", v |-> b]>> \o o.draws \o o2.draws,
                prob |-> RMul(IF b THEN pd.p ELSE RSub(R(1), pd.p), RMul(o.prob, o2.prob)),
                p |-> o.p,
                t |-> RAdd(o.t, RMul(RMul(IF b THEN R(0 - 1) ELSE R(1), RSub(o2.p, o.p)), pd.t))]) : b \in BOOLEAN}
    [] k = "rf" ->
         UNION {{[draws |-> <<[k |-> "flip", v |-> b]>> \o o.draws, prob |-> RMul(IF b THEN pd.p ELSE RSub(R(1), pd.p), o.prob), p |-> o.p,
                  t |-> RAdd(o.t, RMul(o.p, IF b THEN RDiv(pd.t, pd.p) ELSE RNeg(RDiv(pd.t, RSub(R(1), pd.p)))))]
                 : o \in next(b)} : b \in BOOLEAN}

SumR(S, f(_)) == FoldSet(LAMBDA o, acc : RAdd(acc, f(o)), R(0), S)

VARIABLES pg, th0, outs
vars == <<pg, th0, outs>>
Init == /\ pg \in Progs /\ th0 \in Thetas /\ outs = {}
Run == /\ outs = {} /\ outs' = Kd(<<Frame(pg)>>, D(th0, R(1))) /\ UNCHANGED <<pg, th0>>
Next == Run
Spec == Init /\ [][Next]_vars

Exact == Ex(<<Frame(pg)>>, D(th0, R(1)))
Unbiased == outs # {} =>
   /\ SumR(outs, LAMBDA o : o.prob) = R(1)
   /\ SumR(outs, LAMBDA o : RMul(o.prob, o.p)) = Exact.p
   /\ SumR(outs, LAMBDA o : RMul(o.prob, o.t)) = Exact.t
EnumExact == (outs # {} /\ KindsOf(pg) \subseteq EnumKinds) => \A o \in outs : o.p = Exact.p /\ o.t = Exact.t
(* the outcome support as (prob, primal, tangent) triples merged by value *)
Support == LET pts == {<<o.p, o.t>> : o \in outs} IN
           {<<SumR({o \in outs : <<o.p, o.t>> = x}, LAMBDA o : o.prob), x[1], x[2]>> : x \in pts}
PrintCase == outs # {} => PrintT(<<"CCASE", pg, th0, <<Exact.p, Exact.t>>, SetToSeq(Support)>>)
=============================================================================
